//! S5 — top-k sketches fed generated streams, checked at (nearly) every prefix.
//! S5a (C09): `LossyCounter<u64>`; the one schedule-like choice is where occurrences fall relative
//! to the pruning tick every `width` adds, and the generator aims at it.
//! S5b (C10): `CMSHeap<u64>` over sketches from 1x1 (everything collides) to collision-free.
use crate::framework::*;
use crate::rng::Sm;
use crate::s1_filters::shrink_vec;
use pdatastructs::countminsketch::CountMinSketch;
use pdatastructs::topk::cmsheap::CMSHeap;
use pdatastructs::topk::lossycounter::LossyCounter;
use serde::{Deserialize, Serialize};
use serde_json::{json, Value};
use std::collections::{BTreeMap, BTreeSet, HashMap};

fn v(property: &'static str, class: String, step: usize, detail: String) -> Violation {
    Violation { property, class, step, detail }
}

// ---------------------------------------------------------------------------
// stream shapes shared by both scenarios

pub fn gen_stream(g: &mut Sm, len: usize, alphabet: usize, width: usize) -> (Vec<u64>, &'static str) {
    let a = alphabet.max(1) as u64;
    let mut s = Vec::with_capacity(len);
    let shape = g.below(7);
    let name = match shape {
        0 => {
            for _ in 0..len {
                s.push(g.below(a));
            }
            "uniform"
        }
        1 => {
            // Zipf-like: rank r with weight 1/(r+1)
            let weights: Vec<f64> = (0..a).map(|r| 1.0 / (r as f64 + 1.0)).collect();
            let total: f64 = weights.iter().sum();
            for _ in 0..len {
                let mut x = g.f64() * total;
                let mut pick = a - 1;
                for (r, w) in weights.iter().enumerate() {
                    if x < *w {
                        pick = r as u64;
                        break;
                    }
                    x -= *w;
                }
                s.push(pick);
            }
            "zipf"
        }
        2 => {
            for i in 0..len {
                s.push(i as u64 % a);
            }
            "round-robin"
        }
        3 => {
            // boundary-straddling adversary: element e occurs exactly once per window, right after the
            // pruning tick (so it is pruned at every boundary and re-admitted); noise in between
            let w = width.max(1);
            for i in 0..len {
                let posw = i % w;
                if posw < (a as usize).min(w) / 2 + 1 {
                    s.push(posw as u64);
                } else {
                    s.push(1000 + g.below(a));
                }
            }
            "prune-tick-adversary"
        }
        4 => {
            // one heavy hitter in noise
            let share = g.range(5, 60);
            for _ in 0..len {
                s.push(if g.below(100) < share { 0 } else { 1 + g.below(a) });
            }
            "heavy-hitter"
        }
        5 => {
            // ties on purpose: blocks of equal counts
            let reps = g.range(1, 6) as usize;
            let mut i = 0u64;
            while s.len() < len {
                for _ in 0..reps {
                    for e in 0..a {
                        if s.len() < len {
                            s.push((e + i) % a);
                        }
                    }
                }
                i += 1;
            }
            "blocks-of-ties"
        }
        _ => {
            // an element whose occurrences sit exactly at the window ends
            let w = width.max(1);
            for i in 0..len {
                if (i + 1) % w == 0 || g.chance(1, 10) {
                    s.push(7);
                } else {
                    s.push(100 + g.below(a));
                }
            }
            "window-end-element"
        }
    };
    (s, name)
}

// ---------------------------------------------------------------------------
// S5a — LossyCounter

#[derive(Clone, Debug, Serialize, Deserialize)]
pub struct LossyCase {
    /// Some(w): with_width(w); None: with_epsilon(epsilon)
    pub width: Option<usize>,
    pub epsilon: f64,
    pub shape: String,
    pub thresholds: Vec<f64>,
    pub stream: Vec<u64>,
    /// clear() before this stream position (0 = never)
    pub clear_at: usize,
    /// before this stream position (0 = never) the counter is replaced by a counter of another
    /// configuration that was overwritten with `Clone::clone_from(&counter)`
    #[serde(default)]
    pub clone_from_at: usize,
}

pub struct S5a;

/// ceil(n / w) without leaving usize (the window width may be usize::MAX)
fn ceil_div(n: usize, w: usize) -> usize {
    n / w + (n % w != 0) as usize
}

fn harmonic(n: usize) -> f64 {
    (1..=n).map(|i| 1.0 / i as f64).sum()
}

impl Scenario for S5a {
    type Case = LossyCase;
    const NAME: &'static str = "S5a-lossycounter";
    const RULE: &'static str = "width in 1..50 (a fifth of the runs 51..400; one run in 40: usize::MAX, 2^63, 2^62, ... or epsilon 1e-19..5e-324) or epsilon from a grid, alphabet 2..200, seven stream shapes (two of them aimed at the pruning tick), thresholds {0, eps, 2 eps, 0.1, 0.25, 0.5, 1} plus two random ones; oracles evaluated at every prefix of short streams and at tick-adjacent plus sampled prefixes of long ones";

    fn generate(seed: u64, _run: u64, _prop: &'static str, tier: Tier) -> LossyCase {
        let mut g = Sm::new(seed);
        if g.chance(1, 160) {
            // long profiles: things that only exist after 2^16 windows or with 2^16 tracked elements
            let mut stream: Vec<u64> = vec![];
            let (width, epsilon, shape);
            if g.chance(1, 2) {
                // regime change after more than 65536 windows: distinct noise, then a new heavy hitter
                // (width 1 has epsilon 1: nothing can ever exceed epsilon * n, so 2 and 3 it is)
                let w = g.range(2, 3) as usize;
                width = Some(w);
                epsilon = 1.0 / w as f64;
                let noise = 65_600 * w + g.usize(2_000);
                for i in 0..noise {
                    stream.push(1_000_000 + i as u64);
                }
                // the newcomer must end up above epsilon * n of the whole stream
                let heavy = g.u64() | 1 << 40;
                let tail = noise * 2 / (w - 1).max(1) / if w == 3 { 2 } else { 1 } + g.usize(20_000);
                for i in 0..tail {
                    stream.push(if g.chance(19, 20) { heavy } else { 5_000_000 + i as u64 });
                }
                shape = "regime-change-after-65536-windows";
            } else {
                // more than 65536 simultaneously tracked elements inside one huge window
                if g.chance(1, 2) {
                    let w = g.range(70_000, 150_000) as usize;
                    width = Some(w);
                    epsilon = 1.0 / w as f64;
                } else {
                    width = None;
                    epsilon = *g.pick(&[1e-5, 1e-6]);
                }
                let distinct = g.range(66_000, 90_000);
                for i in 0..distinct {
                    stream.push(7_000_000 + i);
                    if g.chance(1, 50) {
                        stream.push(7_000_000 + g.below(i + 1));
                    }
                }
                // a few elements of medium frequency, spread over the stream
                for (j, cnt) in [5usize, 9, 17, 100, 1000, 3000].iter().enumerate() {
                    for _ in 0..*cnt {
                        let at = g.usize(stream.len() + 1);
                        stream.insert(at, 9_000_000 + j as u64);
                    }
                }
                shape = "more-than-65536-tracked-elements";
            }
            // thresholds whose frequency bound (s - eps) * n lies just above 2^16 / 2^17 at the end of the stream
            let mut thresholds = vec![0.0, epsilon, 0.1, 0.5, 1.0];
            for b in [65_541.0, 131_077.0] {
                let t = epsilon + b / stream.len() as f64;
                if t <= 1.0 {
                    thresholds.push(t);
                }
            }
            return LossyCase { width, epsilon, shape: shape.into(), thresholds, stream, clear_at: 0, clone_from_at: 0 };
        }
        let (width, epsilon) = if g.chance(1, 40) {
            // extreme but legal windows: the arithmetic on n and width must not leave usize
            if g.chance(1, 2) {
                let w = *g.pick(&[usize::MAX, usize::MAX - 1, usize::MAX / 2 + 1, usize::MAX / 2, 1usize << 62, (1usize << 32) + 1]);
                (Some(w), 1.0 / w as f64)
            } else {
                (None, *g.pick(&[1e-30, 1e-19, 5.5e-20, 1e-300, 5e-324]))
            }
        } else if g.chance(2, 3) {
            // mostly narrow windows (many pruning ticks per stream), sometimes wide ones whose
            // reciprocal is not exactly representable
            let w = if g.chance(4, 5) { g.range(1, 50) } else { g.range(51, 400) } as usize;
            (Some(w), 1.0 / w as f64)
        } else {
            let e = *g.pick(&[0.5, 0.3, 0.25, 0.2, 0.1, 0.07, 0.05, 0.03, 0.02, 0.01, 0.34, 0.9, 0.99, 0.001]);
            (None, e)
        };
        let w_eff = width.unwrap_or((1.0 / epsilon).ceil() as usize).max(1);
        let maxlen = if tier == Tier::Thorough { 100_000 } else { 5_000 };
        let len = match g.below(10) {
            0..=4 => g.range(1, 300),
            5..=8 => g.range(100, 2_000),
            _ => g.range(1_000, maxlen),
        } as usize;
        let alphabet = g.range(2, 200) as usize;
        let (stream, shape) = gen_stream(&mut g, len, alphabet, w_eff);
        let mut thresholds = vec![0.0, epsilon, 2.0 * epsilon, 0.1, 0.25, 0.5, 1.0, g.f64(), g.f64() * 0.2];
        thresholds.retain(|t| *t >= 0.0 && *t <= 1.0);
        let clear_at = if g.chance(1, 12) { g.range(1, len as u64) as usize } else { 0 };
        let clone_from_at = if g.chance(1, 6) { g.range(1, len as u64) as usize } else { 0 };
        LossyCase { width, epsilon, shape: shape.into(), thresholds, stream, clear_at, clone_from_at }
    }

    fn execute(case: &LossyCase, prop: &'static str) -> Outcome {
        let mut stats = RunStats::default();
        let mut viol: Vec<Violation> = vec![];
        let mut step = 0usize;
        let r = guarded(|| {
            let mut lc: LossyCounter<u64> = match case.width {
                Some(w) => LossyCounter::with_width(w),
                None => LossyCounter::with_epsilon(case.epsilon),
            };
            let width = lc.width();
            let eps = lc.epsilon();
            stats.sig(width as u64);
            let mut truth: HashMap<u64, usize> = HashMap::new();
            // textbook Manku-Motwani table, kept as a probe of agreement (not an oracle)
            let mut textbook: HashMap<u64, (usize, usize)> = HashMap::new();
            let mut n = 0usize;
            let short = case.stream.len() <= 300;
            // long streams (more than 2^16 windows, or more than 2^16 tracked elements): per-step
            // bookkeeping stays O(1), the full oracle runs at sampled prefixes only
            let long = case.stream.len() > 20_000;
            let stride = (case.stream.len() / 24).max(1);
            let mut pruned_last_tick: BTreeSet<u64> = BTreeSet::new();
            for (i, &e) in case.stream.iter().enumerate() {
                step = i + 1;
                if case.clear_at == i && i > 0 {
                    lc.clear();
                    stats.fault("node_restart");
                    truth.clear();
                    textbook.clear();
                    pruned_last_tick.clear();
                    n = 0;
                    if lc.n() != 0 || lc.query(0.0).count() != 0 {
                        viol.push(v("C19", "lossycounter/clear/not-empty".into(), step, "after clear(): n() or query(0) not empty".into()));
                        return;
                    }
                }
                if case.clone_from_at == i && i > 0 {
                    // state transfer: a counter with another window width and a few elements of its own
                    let mut other: LossyCounter<u64> = LossyCounter::with_width(if width > usize::MAX - 3 { width - 3 } else { width + 3 });
                    for j in 0..5u64 {
                        other.add(900_000_000 + j);
                    }
                    other.clone_from(&lc);
                    lc = other;
                    stats.fault("fork");
                    if lc.width() != width || lc.epsilon().to_bits() != eps.to_bits() || lc.n() != n {
                        viol.push(v("C09", "lossycounter/clone_from/differs-from-source".into(), step, format!("after clone_from: width {} / epsilon {} / n {}, the source has {} / {} / {}", lc.width(), lc.epsilon(), lc.n(), width, eps, n)));
                        return;
                    }
                }
                let sampled = !long || i % stride == 0 || i + 1 == case.stream.len() || i < 64;
                let tracked_before: BTreeSet<u64> = if sampled { lc.query(0.0).collect() } else { BTreeSet::new() };
                let was_new = lc.add(e);
                n += 1;
                stats.steps += 1;
                *truth.entry(e).or_insert(0) += 1;
                if pruned_last_tick.contains(&e) && (n - 1) % width == 0 {
                    // an occurrence lands on the add right after the element was pruned
                    stats.fault("prune_tick_adjacent");
                }
                if sampled && was_new == tracked_before.contains(&e) {
                    viol.push(v("C09", "lossycounter/add-return".into(), step,
                        format!("add({}) returned {}, but query(0) before the call {} it", e, was_new, if tracked_before.contains(&e) { "contained" } else { "did not contain" })));
                    return;
                }
                if lc.n() != n {
                    viol.push(v("C09", "lossycounter/n".into(), step, format!("n() = {} after {} adds", lc.n(), n)));
                    return;
                }
                // textbook model
                let b_current = ceil_div(n, width);
                if width > usize::MAX / 2 - 1 {
                    stats.probe("window_width_near_usize_max");
                }
                textbook.entry(e).and_modify(|t| t.0 += 1).or_insert((1, b_current - 1));
                let at_tick = n % width == 0;
                if at_tick && long {
                    textbook.retain(|_, t| t.0 + t.1 > b_current);
                    stats.probe("prune_tick");
                    if b_current > 65_536 {
                        stats.probe("more_than_65536_windows");
                    }
                } else if at_tick {
                    let before: BTreeSet<u64> = textbook.keys().cloned().collect();
                    textbook.retain(|_, t| t.0 + t.1 > b_current);
                    pruned_last_tick = before.into_iter().filter(|k| !textbook.contains_key(k)).collect();
                    stats.probe("prune_tick");
                    let t = truth[&e];
                    if t + 0 == b_current {
                        stats.probe("count_equals_window_at_tick");
                    }
                }
                let tick_adjacent = at_tick || n % width == 1 || (n + 1) % width == 0;
                if long && !sampled {
                    continue;
                }
                if !long && !(short || tick_adjacent || i % 17 == 0 || i + 1 == case.stream.len()) {
                    continue;
                }
                stats.sig(at_tick as u64);
                // size bound
                let tracked: BTreeSet<u64> = lc.query(0.0).collect();
                let bound = width as f64 * (harmonic(ceil_div(n, width)) + 1.0);
                if tracked.len() as f64 > bound {
                    viol.push(v("C09", "lossycounter/table-too-large".into(), step,
                        format!("{} tracked elements after {} adds with width {}; bound width*(H(ceil(n/width))+1) = {:.1}", tracked.len(), n, width, bound)));
                    return;
                }
                if tracked.iter().any(|k| !truth.contains_key(k)) {
                    viol.push(v("C09", "lossycounter/tracks-unseen-element".into(), step, "query(0) returned an element that was never added".into()));
                    return;
                }
                let tb: BTreeSet<u64> = textbook.keys().cloned().collect();
                if tb == tracked {
                    stats.probe("table_equals_textbook");
                } else {
                    stats.probe("table_differs_from_textbook");
                }
                let nf = n as f64;
                let guard = 1e-9 * nf;
                for &s in &case.thresholds {
                    let got: BTreeSet<u64> = lc.query(s).collect();
                    for (&k, &t) in truth.iter() {
                        let tf = t as f64;
                        let must = tf >= s * nf + guard && tf > eps * nf + guard;
                        let must_not = tf < (s - eps) * nf - guard;
                        let has = got.contains(&k);
                        if must && !has {
                            viol.push(v("C09", "lossycounter/missed-frequent-element".into(), step,
                                format!("n = {}, width = {}, epsilon = {}: element {} occurred {} times (>= s*n = {:.3} and > eps*n = {:.3}) but query({}) does not return it", n, width, eps, k, t, s * nf, eps * nf, s)));
                            return;
                        }
                        if must_not && has {
                            viol.push(v("C09", "lossycounter/gross-intruder".into(), step,
                                format!("n = {}, width = {}, epsilon = {}: element {} occurred {} times (< (s-eps)*n = {:.3}) but query({}) returns it", n, width, eps, k, t, (s - eps) * nf, s)));
                            return;
                        }
                    }
                }
            }
        });
        if let Caught::LibPanic(loc, msg) = r {
            viol.push(v("C09", format!("lossycounter/panic/{}", panic_site(&loc)), step, format!("panic at {}: {}", loc, msg)));
        }
        Outcome { stats, violations: viol.into_iter().filter(|x| x.property == prop).collect() }
    }

    fn shrink(case: &LossyCase) -> Vec<LossyCase> {
        let mut out = vec![];
        for s in shrink_vec(&case.stream).into_iter().take(300) {
            let mut c = case.clone();
            c.stream = s;
            if c.clear_at >= c.stream.len() {
                c.clear_at = 0;
            }
            if c.clone_from_at >= c.stream.len() {
                c.clone_from_at = 0;
            }
            out.push(c);
        }
        if case.clear_at != 0 {
            let mut c = case.clone();
            c.clear_at = 0;
            out.push(c);
        }
        if case.clone_from_at != 0 {
            let mut c = case.clone();
            c.clone_from_at = 0;
            out.push(c);
        }
        if case.thresholds.len() > 1 {
            for t in shrink_vec(&case.thresholds) {
                if !t.is_empty() {
                    let mut c = case.clone();
                    c.thresholds = t;
                    out.push(c);
                }
            }
        }
        // rename elements to small numbers
        let mut map: BTreeMap<u64, u64> = BTreeMap::new();
        for &e in &case.stream {
            let k = map.len() as u64;
            map.entry(e).or_insert(k);
        }
        let renamed: Vec<u64> = case.stream.iter().map(|e| map[e]).collect();
        if renamed != case.stream {
            let mut c = case.clone();
            c.stream = renamed;
            out.push(c);
        }
        out
    }

    fn describe(case: &LossyCase) -> Value {
        json!({"width": case.width, "epsilon": case.epsilon, "shape": case.shape, "len": case.stream.len(),
               "thresholds": case.thresholds, "first_elements": case.stream.iter().take(24).collect::<Vec<_>>(), "clear_at": case.clear_at})
    }
}

// ---------------------------------------------------------------------------
// S5b — CMSHeap

#[derive(Clone, Debug, Serialize, Deserialize)]
pub struct HeapCase {
    pub k: usize,
    pub w: usize,
    pub d: usize,
    pub shape: String,
    pub stream: Vec<u64>,
    pub clear_at: usize,
}

pub struct S5b;

impl Scenario for S5b {
    type Case = HeapCase;
    const NAME: &'static str = "S5b-cmsheap";
    const RULE: &'static str = "k in 1..8, sketch shape from 1x1 / 1x2 / 2x1 / 3x2 (everything collides) to collision-free widths, alphabets 1..64, seven stream shapes including ties; a shadow CountMinSketch of identical parameters supplies the largest overestimate E at every prefix";

    fn generate(seed: u64, _run: u64, _prop: &'static str, tier: Tier) -> HeapCase {
        let mut g = Sm::new(seed);
        if g.chance(1, 250) {
            // a tracked element whose exact count passes 2^16 (2^17), then light elements compete
            let hot = *g.pick(&[65_535usize, 65_536, 65_537, 70_000, 131_072]);
            let k = g.range(1, 3) as usize;
            let mut stream: Vec<u64> = vec![];
            let lights = g.range(k as u64, k as u64 + 3);
            // the light elements first (so that the heap is full), the hot one in the middle
            for e in 1..=lights {
                for _ in 0..g.range(1, 6) {
                    stream.push(e);
                }
            }
            let at = g.usize(stream.len() + 1);
            let tail: Vec<u64> = stream.split_off(at);
            stream.extend(std::iter::repeat(0u64).take(hot));
            stream.extend(tail);
            for _ in 0..g.range(10, 80) {
                stream.push(1 + g.below(lights + 2));
            }
            return HeapCase { k, w: 1024, d: 4, shape: "counter-passes-2^16".into(), stream, clear_at: 0 };
        }
        let k = if g.chance(1, 12) { g.range(30, 300) } else { g.range(1, 8) } as usize;
        let (w, d) = match g.below(10) {
            0 => (1, 1),
            1 => (1, 2),
            2 => (2, 1),
            3 => (3, 2),
            4 => (g.range(1, 8) as usize, g.range(1, 4) as usize),
            5 | 6 => (g.range(4, 32) as usize, g.range(1, 5) as usize),
            _ => (g.range(256, 2048) as usize, g.range(3, 6) as usize),
        };
        let maxlen = if tier == Tier::Thorough { 20_000 } else { 2_000 };
        let len = match g.below(10) {
            0..=5 => g.range(1, 120),
            6..=8 => g.range(50, 600),
            _ => g.range(300, maxlen),
        } as usize;
        let alphabet = if k > 8 { g.range(k as u64 / 2, 3 * k as u64) } else { g.range(1, 64) } as usize;
        let (mut stream, shape) = gen_stream(&mut g, len, alphabet, k + 1);
        // structured keys as well as scattered ones
        if g.chance(1, 2) {
            let salt = g.u64();
            for e in stream.iter_mut() {
                *e = crate::rng::mix2(salt, *e);
            }
        }
        let clear_at = if g.chance(1, 12) { g.range(1, len as u64) as usize } else { 0 };
        HeapCase { k, w, d, shape: shape.into(), stream, clear_at }
    }

    fn execute(case: &HeapCase, prop: &'static str) -> Outcome {
        let mut stats = RunStats::default();
        let mut viol: Vec<Violation> = vec![];
        let mut step = 0usize;
        stats.sig((case.k * 100 + case.w.min(50) * 10 + case.d) as u64);
        let r = guarded(|| {
            let mut heap = CMSHeap::<u64>::new(case.k, CountMinSketch::with_params(case.w, case.d));
            let mut shadow = CountMinSketch::<u64>::with_params(case.w, case.d);
            let mut truth: BTreeMap<u64, usize> = BTreeMap::new();
            if !heap.is_empty() || heap.iter().count() != 0 {
                viol.push(v("C10", "cmsheap/fresh-not-empty".into(), 0, "fresh CMSHeap is not empty".into()));
                return;
            }
            let short = case.stream.len() <= 150;
            for (i, &e) in case.stream.iter().enumerate() {
                step = i + 1;
                if case.clear_at == i && i > 0 {
                    heap.clear();
                    shadow.clear();
                    truth.clear();
                    stats.fault("node_restart");
                    if !heap.is_empty() || heap.iter().count() != 0 {
                        viol.push(v("C19", "cmsheap/clear/not-empty".into(), step, "after clear(): not empty".into()));
                        return;
                    }
                }
                let first_seen = !truth.contains_key(&e);
                let est_before = shadow.query_point(&e);
                if first_seen && est_before > 0 {
                    stats.fault("row_collision");
                    if truth.len() < case.k {
                        // a newcomer whose estimate is inflated by collisions while the heap has room
                        stats.fault("inflated_newcomer_while_heap_has_room");
                    }
                }
                heap.add(e);
                shadow.add(&e);
                let cnt = truth.entry(e).or_insert(0);
                *cnt += 1;
                if *cnt == 65_536 {
                    stats.probe("count_passes_65536");
                }
                stats.steps += 1;
                if heap.is_empty() {
                    viol.push(v("C10", "cmsheap/is_empty-after-add".into(), step, "is_empty() after an add".into()));
                    return;
                }
                // long runs of one element: check where the element changes, otherwise every 7th prefix
                let changes = i + 1 == case.stream.len() || case.stream[i + 1] != e;
                if !(short || changes || i % 7 == 0) || (case.stream.len() > 20_000 && !changes && i % 1009 != 0) {
                    continue;
                }
                let items: Vec<u64> = heap.iter().collect();
                let set: BTreeSet<u64> = items.iter().cloned().collect();
                let want = case.k.min(truth.len());
                if items.len() != want || set.len() != items.len() {
                    viol.push(v("C10", "cmsheap/wrong-number-of-elements".into(), step,
                        format!("iter() yields {:?}: {} elements ({} distinct), expected min(k = {}, distinct seen = {}) = {}", items, items.len(), set.len(), case.k, truth.len(), want)));
                    return;
                }
                if let Some(x) = items.iter().find(|x| !truth.contains_key(x)) {
                    viol.push(v("C10", "cmsheap/unseen-element".into(), step, format!("iter() yields {} which was never added", x)));
                    return;
                }
                stats.sig(items.len() as u64);
                // largest overestimate of the sketch on this prefix
                let mut e_max = 0usize;
                for (&x, &t) in truth.iter() {
                    let est = shadow.query_point(&x);
                    e_max = e_max.max(est.saturating_sub(t));
                }
                if e_max == 0 {
                    stats.probe("collision_free_prefix");
                } else {
                    stats.probe("prefix_with_sketch_error");
                }
                let mut counts: Vec<usize> = truth.values().cloned().collect();
                counts.sort();
                for (&x, &t) in truth.iter() {
                    if set.contains(&x) {
                        continue;
                    }
                    let floor = t.saturating_sub(e_max);
                    let at_least = counts.len() - counts.partition_point(|&c| c < floor);
                    // x itself satisfies the condition; it does not count as "other"
                    let others = at_least - 1;
                    if others < case.k {
                        viol.push(v("C10", "cmsheap/missing-frequent-element".into(), step,
                            format!("k = {}, sketch {}x{}: element {} (true count {}) is missing although only {} other elements have true count >= {} - E, E = {}; result {:?}", case.k, case.w, case.d, x, t, others, t, e_max, items)));
                        return;
                    }
                }
            }
        });
        if let Caught::LibPanic(loc, msg) = r {
            viol.push(v("C10", format!("cmsheap/panic/{}", panic_site(&loc)), step, format!("add number {} panicked at {}: {}", step, loc, msg)));
        }
        Outcome { stats, violations: viol.into_iter().filter(|x| x.property == prop).collect() }
    }

    fn shrink(case: &HeapCase) -> Vec<HeapCase> {
        let mut out = vec![];
        for s in shrink_vec(&case.stream).into_iter().take(300) {
            let mut c = case.clone();
            c.stream = s;
            if c.clear_at >= c.stream.len() {
                c.clear_at = 0;
            }
            out.push(c);
        }
        if case.clear_at != 0 {
            let mut c = case.clone();
            c.clear_at = 0;
            out.push(c);
        }
        for (w, d) in [(1, 1), (case.w / 2, case.d), (case.w, case.d.saturating_sub(1))] {
            if w >= 1 && d >= 1 && (w, d) != (case.w, case.d) && w * d < case.w * case.d {
                let mut c = case.clone();
                c.w = w;
                c.d = d;
                out.push(c);
            }
        }
        if case.k > 1 {
            let mut c = case.clone();
            c.k -= 1;
            out.push(c);
        }
        let mut map: BTreeMap<u64, u64> = BTreeMap::new();
        for &e in &case.stream {
            let k = map.len() as u64;
            map.entry(e).or_insert(k);
        }
        let renamed: Vec<u64> = case.stream.iter().map(|e| map[e]).collect();
        if renamed != case.stream {
            let mut c = case.clone();
            c.stream = renamed;
            out.push(c);
        }
        out
    }

    fn describe(case: &HeapCase) -> Value {
        json!({"k": case.k, "w": case.w, "d": case.d, "shape": case.shape, "len": case.stream.len(),
               "first_elements": case.stream.iter().take(24).collect::<Vec<_>>(), "clear_at": case.clear_at})
    }
}
