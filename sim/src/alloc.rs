//! Counting global allocator (the allocator seam of S6). Forwards to `System`; while the calling
//! thread's "inside the structure" flag is set it adds allocated and subtracts freed bytes.
use std::alloc::{GlobalAlloc, Layout, System};
use std::cell::Cell;

pub struct Counting;

thread_local! {
    static TRACK: Cell<bool> = const { Cell::new(false) };
    static LIVE: Cell<i64> = const { Cell::new(0) };
}

#[inline]
fn bump(delta: i64) {
    let _ = TRACK.try_with(|t| {
        if t.get() {
            let _ = LIVE.try_with(|l| {
                let v = l.get() + delta;
                l.set(v);
            });
        }
    });
}

unsafe impl GlobalAlloc for Counting {
    unsafe fn alloc(&self, l: Layout) -> *mut u8 {
        let p = System.alloc(l);
        if !p.is_null() {
            bump(l.size() as i64);
        }
        p
    }
    unsafe fn alloc_zeroed(&self, l: Layout) -> *mut u8 {
        let p = System.alloc_zeroed(l);
        if !p.is_null() {
            bump(l.size() as i64);
        }
        p
    }
    unsafe fn dealloc(&self, p: *mut u8, l: Layout) {
        System.dealloc(p, l);
        bump(-(l.size() as i64));
    }
    unsafe fn realloc(&self, p: *mut u8, l: Layout, new_size: usize) -> *mut u8 {
        let q = System.realloc(p, l, new_size);
        if !q.is_null() {
            bump(new_size as i64 - l.size() as i64);
        }
        q
    }
}

/// Runs `f` with the flag set; everything `f` allocates and does not free stays on the account.
pub fn tracked<T>(f: impl FnOnce() -> T) -> T {
    struct Restore(bool);
    impl Drop for Restore {
        fn drop(&mut self) {
            let _ = TRACK.try_with(|t| t.set(self.0));
        }
    }
    let _g = Restore(TRACK.with(|t| t.replace(true)));
    f()
}
pub fn reset() {
    TRACK.with(|t| t.set(false));
    LIVE.with(|l| l.set(0));
}
pub fn live() -> i64 {
    LIVE.with(|l| l.get())
}
