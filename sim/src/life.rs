//! One interface over all nine structures for the lifecycle (S7) and memory (S6) scenarios.
//! An operation is a pair of words interpreted per structure.
use crate::anyf::{AnyFilter, FKind};
use crate::anyn::{AnyCms, Hll};
use crate::hasher::SimHasher;
use crate::rng::{RngProbe, SimRng};
use crate::s4_digest::{build_digest, DigDyn};
use pdatastructs::countminsketch::CountMinSketch;
use pdatastructs::reservoirsampling::ReservoirSampling;
use pdatastructs::topk::cmsheap::CMSHeap;
use pdatastructs::topk::lossycounter::LossyCounter;
use serde::{Deserialize, Serialize};

#[derive(Clone, Debug, PartialEq, Serialize, Deserialize)]
pub enum LKind {
    Filter(FKind),
    Cms { w: usize, d: usize, ctr: u8 },
    Hll { b: usize },
    Digest {
        scale: u8,
        delta: f64,
        backlog: usize,
        /// common factor on every weight (1e-320 makes all of them subnormal)
        #[serde(default = "one")]
        wscale: f64,
    },
    Reservoir { k: usize },
    Lossy { width: usize },
    Heap { k: usize, w: usize, d: usize },
}

fn one() -> f64 {
    1.0
}

impl LKind {
    pub fn name(&self) -> String {
        match self {
            LKind::Filter(k) => k.name().to_string(),
            LKind::Cms { .. } => "cms".into(),
            LKind::Hll { .. } => "hll".into(),
            LKind::Digest { scale, .. } => format!("tdigest/{}", crate::s4_digest::scale_name(*scale)),
            LKind::Reservoir { .. } => "reservoir".into(),
            LKind::Lossy { .. } => "lossycounter".into(),
            LKind::Heap { .. } => "cmsheap".into(),
        }
    }
    pub fn index(&self) -> u64 {
        match self {
            LKind::Filter(FKind::Bloom { .. }) => 0,
            LKind::Filter(FKind::Cuckoo { .. }) => 1,
            LKind::Filter(FKind::Quotient { .. }) => 2,
            LKind::Filter(FKind::Set) => 9,
            LKind::Cms { .. } => 3,
            LKind::Hll { .. } => 4,
            LKind::Digest { scale, .. } => 10 + *scale as u64,
            LKind::Reservoir { .. } => 5,
            LKind::Lossy { .. } => 6,
            LKind::Heap { .. } => 7,
        }
    }
    pub fn uses_rng(&self) -> bool {
        matches!(self, LKind::Filter(FKind::Cuckoo { .. }) | LKind::Reservoir { .. })
    }
}

pub trait Life {
    /// applies one operation; returns (result code, counted as "something was added")
    fn apply(&mut self, a: u64, b: u64) -> (u64, bool);
    fn observe(&self, keys: &[u64]) -> Vec<u64>;
    fn clear(&mut self);
    fn fork(&self) -> Box<dyn Life>;
    /// None: the structure has no is_empty()
    fn is_empty(&self) -> Option<bool>;
    fn rng_pos(&self) -> u64 {
        0
    }
    /// a cheap read that forces lazy work (T-Digest compaction); allocation free result
    fn touch(&self) -> u64 {
        0
    }
    /// feeds several operations at once; structures with an `Extend` impl receive them through it
    /// (one iterator with an exact size hint)
    fn apply_chunk(&mut self, items: &[(u64, u64)]) {
        for &(a, b) in items {
            self.apply(a, b);
        }
    }
    fn as_any(&self) -> &dyn std::any::Any;
    /// `self.union(peer)` / `self.merge(peer)` with a peer of the same configuration: state that
    /// arrives without a single insert / add on the receiver. None: the structure has no such
    /// operation (or `peer` is of another type); Some(0): done, Some(2): refused with an error.
    fn absorb_dyn(&mut self, _peer: &dyn Life) -> Option<u64> {
        None
    }
    /// `Clone::clone_from(self, src)`; false if `src` is not the same structure type
    fn clone_from_dyn(&mut self, src: &dyn Life) -> bool;
}

macro_rules! clone_from_impl {
    ($t:ty) => {
        fn as_any(&self) -> &dyn std::any::Any {
            self
        }
        fn clone_from_dyn(&mut self, src: &dyn Life) -> bool {
            match src.as_any().downcast_ref::<$t>() {
                Some(s) => {
                    self.0.clone_from(&s.0);
                    true
                }
                None => false,
            }
        }
    };
}

pub fn digest_value(a: u64) -> f64 {
    (a % 10_007) as f64 / 10.0 - 300.0
}
pub fn digest_weight(b: u64) -> f64 {
    [1.0, 1.0, 1.0, 0.5, 2.0, 0.0, 10.0][(b % 7) as usize]
}

struct FilterLife(AnyFilter);
impl Life for FilterLife {
    fn as_any(&self) -> &dyn std::any::Any {
        self
    }
    fn clone_from_dyn(&mut self, src: &dyn Life) -> bool {
        match src.as_any().downcast_ref::<FilterLife>() {
            Some(s) => self.0.clone_from_other(&s.0),
            None => false,
        }
    }
    fn absorb_dyn(&mut self, peer: &dyn Life) -> Option<u64> {
        let p = peer.as_any().downcast_ref::<FilterLife>()?;
        Some(if self.0.union(&p.0).is_ok() { 0 } else { 2 })
    }
    fn apply(&mut self, a: u64, b: u64) -> (u64, bool) {
        // one operation in five on a filter that can delete is a delete (of a present or an absent
        // element): histories with holes in the buckets
        if b % 5 == 4 {
            if let Some(got) = self.0.delete(a) {
                // 3: nothing to delete, 4: one copy deleted; neither counts as an addition
                return (3 + got as u64, false);
            }
        }
        match self.0.insert(a) {
            Ok(x) => (x as u64, true),
            Err(()) => (2, false),
        }
    }
    fn observe(&self, keys: &[u64]) -> Vec<u64> {
        let mut o: Vec<u64> = keys.iter().map(|&k| self.0.query(k) as u64).collect();
        o.push(self.0.len() as u64);
        o.push(self.0.is_empty() as u64);
        o
    }
    fn clear(&mut self) {
        self.0.clear()
    }
    fn fork(&self) -> Box<dyn Life> {
        Box::new(FilterLife(self.0.fork()))
    }
    fn is_empty(&self) -> Option<bool> {
        Some(self.0.is_empty())
    }
    fn rng_pos(&self) -> u64 {
        self.0.rng_pos()
    }
}

struct CmsLife(AnyCms);
impl Life for CmsLife {
    fn as_any(&self) -> &dyn std::any::Any {
        self
    }
    fn clone_from_dyn(&mut self, src: &dyn Life) -> bool {
        match src.as_any().downcast_ref::<CmsLife>() {
            Some(s) => self.0.clone_from_other(&s.0),
            None => false,
        }
    }
    fn absorb_dyn(&mut self, peer: &dyn Life) -> Option<u64> {
        let p = peer.as_any().downcast_ref::<CmsLife>()?;
        self.0.merge(&p.0);
        Some(0)
    }
    fn apply(&mut self, a: u64, b: u64) -> (u64, bool) {
        let n = 1 + b % 3;
        (if n == 1 { self.0.add(a) } else { self.0.add_n(a, n) }, true)
    }
    fn observe(&self, keys: &[u64]) -> Vec<u64> {
        let mut o: Vec<u64> = keys.iter().map(|&k| self.0.query_point(k)).collect();
        o.push(self.0.is_empty() as u64);
        o
    }
    fn clear(&mut self) {
        self.0.clear()
    }
    fn fork(&self) -> Box<dyn Life> {
        Box::new(CmsLife(self.0.fork()))
    }
    fn is_empty(&self) -> Option<bool> {
        Some(self.0.is_empty())
    }
}

struct HllLife(Hll);
impl Life for HllLife {
    clone_from_impl!(HllLife);
    fn absorb_dyn(&mut self, peer: &dyn Life) -> Option<u64> {
        let p = peer.as_any().downcast_ref::<HllLife>()?;
        self.0.merge(&p.0);
        Some(0)
    }
    fn apply(&mut self, a: u64, b: u64) -> (u64, bool) {
        if b % 2 == 0 {
            self.0.add(&a)
        } else {
            self.0.add_hashed(a)
        }
        (0, true)
    }
    fn observe(&self, _keys: &[u64]) -> Vec<u64> {
        let mut acc = 0u64;
        for (i, &r) in self.0.registers().iter().enumerate() {
            if r != 0 {
                acc = crate::rng::mix2(acc, (i as u64) << 8 | r as u64);
            }
        }
        vec![acc, self.0.count() as u64, self.0.is_empty() as u64, self.0.b() as u64, self.0.m() as u64]
    }
    fn clear(&mut self) {
        self.0.clear()
    }
    fn fork(&self) -> Box<dyn Life> {
        Box::new(HllLife(self.0.clone()))
    }
    fn is_empty(&self) -> Option<bool> {
        Some(self.0.is_empty())
    }
}

struct DigLife(Box<dyn DigDyn>, f64);
impl Life for DigLife {
    fn as_any(&self) -> &dyn std::any::Any {
        self
    }
    fn clone_from_dyn(&mut self, src: &dyn Life) -> bool {
        match src.as_any().downcast_ref::<DigLife>() {
            Some(s) => {
                self.1 = s.1; // the wrapper's weight factor belongs to the workload, not to the digest
                self.0.clone_from_dyn(s.0.as_ref())
            }
            None => false,
        }
    }
    fn apply(&mut self, a: u64, b: u64) -> (u64, bool) {
        let w = digest_weight(b) * self.1;
        self.0.insert_weighted(digest_value(a), w);
        (0, w > 0.0)
    }
    fn observe(&self, _keys: &[u64]) -> Vec<u64> {
        let d = &self.0;
        let mut o = vec![d.n_centroids() as u64];
        for i in 0..=32 {
            o.push(d.quantile(i as f64 / 32.0).to_bits());
        }
        for i in 0..=32 {
            o.push(d.cdf(-320.0 + i as f64 * 42.0).to_bits());
        }
        o.push(d.count().to_bits());
        o.push(d.sum().to_bits());
        o.push(d.mean().to_bits());
        o.push(d.min().to_bits());
        o.push(d.max().to_bits());
        o.push(d.is_empty() as u64);
        o
    }
    fn clear(&mut self) {
        self.0.clear()
    }
    fn fork(&self) -> Box<dyn Life> {
        Box::new(DigLife(self.0.fork(), self.1))
    }
    fn is_empty(&self) -> Option<bool> {
        Some(self.0.is_empty())
    }
    fn touch(&self) -> u64 {
        self.0.count().to_bits()
    }
}

struct ResLife(ReservoirSampling<u64, SimRng>, RngProbe);
impl Life for ResLife {
    fn apply_chunk(&mut self, items: &[(u64, u64)]) {
        self.0.extend(items.iter().map(|t| t.0));
    }
    fn as_any(&self) -> &dyn std::any::Any {
        self
    }
    fn clone_from_dyn(&mut self, src: &dyn Life) -> bool {
        match src.as_any().downcast_ref::<ResLife>() {
            Some(s) => {
                let _ = crate::rng::take_last_clone_probe();
                self.0.clone_from(&s.0);
                if let Some(p) = crate::rng::take_last_clone_probe() {
                    self.1 = p;
                }
                true
            }
            None => false,
        }
    }
    fn apply(&mut self, a: u64, _b: u64) -> (u64, bool) {
        self.0.add(a);
        (0, true)
    }
    fn observe(&self, _keys: &[u64]) -> Vec<u64> {
        let mut o: Vec<u64> = self.0.reservoir().clone();
        o.push(self.0.i() as u64);
        o.push(self.0.k() as u64);
        o.push(self.0.is_empty() as u64);
        o
    }
    fn clear(&mut self) {
        self.0.clear()
    }
    fn fork(&self) -> Box<dyn Life> {
        let _ = crate::rng::take_last_clone_probe();
        let c = self.0.clone();
        let p = crate::rng::take_last_clone_probe().unwrap_or_else(|| self.1.clone());
        Box::new(ResLife(c, p))
    }
    fn is_empty(&self) -> Option<bool> {
        Some(self.0.is_empty())
    }
    fn rng_pos(&self) -> u64 {
        self.1.pos()
    }
}

struct LossyLife(LossyCounter<u64>, u64);
impl Life for LossyLife {
    clone_from_impl!(LossyLife);
    fn apply(&mut self, a: u64, _b: u64) -> (u64, bool) {
        (self.0.add(a % self.1) as u64, true)
    }
    fn observe(&self, _keys: &[u64]) -> Vec<u64> {
        let mut o = vec![self.0.n() as u64, self.0.width() as u64];
        for t in [0.0, 0.1, 0.5] {
            let mut q: Vec<u64> = self.0.query(t).collect();
            q.sort();
            o.push(q.len() as u64);
            o.extend(q);
        }
        o
    }
    fn clear(&mut self) {
        self.0.clear()
    }
    fn fork(&self) -> Box<dyn Life> {
        Box::new(LossyLife(self.0.clone(), self.1))
    }
    fn is_empty(&self) -> Option<bool> {
        None
    }
}

struct HeapLife(CMSHeap<u64>, u64);
impl Life for HeapLife {
    clone_from_impl!(HeapLife);
    fn apply_chunk(&mut self, items: &[(u64, u64)]) {
        let m = self.1;
        self.0.extend(items.iter().map(|t| t.0 % m));
    }
    fn apply(&mut self, a: u64, _b: u64) -> (u64, bool) {
        self.0.add(a % self.1);
        (0, true)
    }
    fn observe(&self, _keys: &[u64]) -> Vec<u64> {
        let mut q: Vec<u64> = self.0.iter().collect();
        q.sort();
        q.push(self.0.is_empty() as u64);
        q.push(self.0.k() as u64);
        q
    }
    fn clear(&mut self) {
        self.0.clear()
    }
    fn fork(&self) -> Box<dyn Life> {
        Box::new(HeapLife(self.0.clone(), self.1))
    }
    fn is_empty(&self) -> Option<bool> {
        Some(self.0.is_empty())
    }
}

/// `pos`: RNG stream position the instance's generator starts at (cuckoo, reservoir)
pub fn build_life(kind: &LKind, hasher: SimHasher, rng_seed: u64, tape: &[(u64, u64)], pos: u64, alphabet: u64) -> Box<dyn Life> {
    match kind {
        LKind::Filter(k) => Box::new(FilterLife(AnyFilter::build_at(k, hasher, rng_seed, tape, pos))),
        LKind::Cms { w, d, ctr } => Box::new(CmsLife(AnyCms::build(*w, *d, *ctr, hasher))),
        LKind::Hll { b } => Box::new(HllLife(Hll::with_hash(*b, hasher))),
        LKind::Digest { scale, delta, backlog, wscale } => Box::new(DigLife(build_digest(*scale, *delta, *backlog), *wscale)),
        LKind::Reservoir { k } => {
            let (rng, probe) = SimRng::new_at(rng_seed, tape, pos);
            Box::new(ResLife(ReservoirSampling::new(*k, rng), probe))
        }
        LKind::Lossy { width } => Box::new(LossyLife(LossyCounter::with_width(*width), alphabet.max(1))),
        LKind::Heap { k, w, d } => Box::new(HeapLife(CMSHeap::new(*k, CountMinSketch::with_params(*w, *d)), alphabet.max(1))),
    }
}
