//! S1 — one filter node under a seeded history of insert / delete / union / clear / fork with
//! injected eviction outcomes, collision layouts and Full failures.
//! Serves C01, C12, C13, C14 (and tags a few C06 / C19 observations made on the way).
use crate::anyf::{AnyFilter, FKind};
use crate::framework::*;
use crate::hasher::{HashMode, SimHasher};
use crate::rng::{Sm, EXTREME_WORDS};
use serde::{Deserialize, Serialize};
use std::collections::HashMap;

#[derive(Clone, Debug, Serialize, Deserialize)]
pub struct BSpec {
    pub keys: Vec<u64>,
    pub rng_seed: u64,
    /// cuckoo only: keys deleted from the operand after the inserts (leaves holes in its buckets)
    #[serde(default)]
    pub deletes: Vec<u64>,
}

#[derive(Clone, Debug, Serialize, Deserialize)]
pub enum FOp {
    Insert(u64),
    Delete(u64),
    /// `a.union(&b)` with `b` a fresh filter of the same configuration fed `keys`
    Union(BSpec),
    /// the same on a clone of `a`, discarded afterwards (enumerates failure positions against one
    /// evolving base state)
    TryUnion(BSpec),
    /// for every key of the universe and `salts` RNG streams: insert into a clone (enumerates
    /// failing inserts against one base state)
    EnumInserts { salts: u8 },
    Clear,
    /// set a clone aside, keep mutating the original, re-inspect the clone at the end
    Fork,
    /// `a.union(&b)` with an operand of a *different* configuration (`variant` says which parameter
    /// differs). The documented reaction is a panic; if the call returns Ok instead, C01 applies.
    UnionMismatch(BSpec, u8),
}

#[derive(Clone, Debug, Serialize, Deserialize)]
pub struct FilterCase {
    pub kind: FKind,
    pub hasher: SimHasher,
    pub rng_seed: u64,
    pub tape: Vec<(u64, u64)>,
    pub universe: Vec<u64>,
    /// C01 mode: a delete of a key that is not currently inserted is skipped
    pub guard_deletes: bool,
    pub ops: Vec<FOp>,
}

pub struct S1;

// ---------------------------------------------------------------------------
// model

#[derive(Clone)]
pub struct Model {
    /// copies per class (cuckoo) / 0-1 (quotient); unused for bloom / hashset
    pub count: Vec<usize>,
    pub total: usize,
    /// per universe index: successful inserts - successful deletes since the last clear
    pub live: Vec<i64>,
}

impl Model {
    pub fn new(nclasses: usize, n: usize) -> Self {
        Model { count: vec![0; nclasses], total: 0, live: vec![0; n] }
    }
    pub fn insert_ok(&mut self, kind: &FKind, cls: usize, idx: usize) {
        match kind {
            FKind::Cuckoo { .. } => {
                self.count[cls] += 1;
                self.total += 1;
            }
            FKind::Quotient { .. } => {
                if self.count[cls] == 0 {
                    self.count[cls] = 1;
                    self.total += 1;
                }
            }
            _ => {}
        }
        self.live[idx] += 1;
    }
    pub fn absorb(&mut self, kind: &FKind, other: &Model) {
        match kind {
            FKind::Cuckoo { .. } => {
                for (a, b) in self.count.iter_mut().zip(&other.count) {
                    *a += *b;
                }
                self.total += other.total;
            }
            FKind::Quotient { .. } => {
                for (a, b) in self.count.iter_mut().zip(&other.count) {
                    if *b > 0 && *a == 0 {
                        *a = 1;
                        self.total += 1;
                    }
                }
            }
            _ => {}
        }
        for (a, b) in self.live.iter_mut().zip(&other.live) {
            *a += *b;
        }
    }
}

#[derive(Clone)]
struct Snap {
    q: Vec<bool>,
    len: usize,
    empty: bool,
}

#[derive(Clone, Copy, PartialEq)]
enum Mode {
    Normal,
    AfterUnionOk,
    AfterClear,
}

struct Exec<'a> {
    case: &'a FilterCase,
    kname: &'static str,
    idx: HashMap<u64, usize>,
    cls: Vec<usize>,
    nclasses: usize,
    has_classes: bool,
    stats: RunStats,
    viol: Vec<Violation>,
    step: usize,
    c01_valid: bool,
    tape_positions: Vec<u64>,
    prop: &'static str,
}

fn v(property: &'static str, class: String, step: usize, detail: String) -> Violation {
    Violation { property, class, step, detail }
}

impl<'a> Exec<'a> {
    /// When C01 is being checked, a deviation that belongs to another property is dropped and the run
    /// goes on: the key-level liveness model of C01 stays valid when, say, a union has merged the
    /// wrong number of copies (a C06 matter), and the false negative that leads to only shows after a
    /// later delete.
    fn should_stop(&mut self) -> bool {
        if self.prop == "C01" {
            self.viol.retain(|x| x.property == "C01");
        }
        // (for the class-model properties the run ends at the first deviation of any kind: their
        // oracles compare with the model, which is out of step from then on)
        !self.viol.is_empty()
    }

    fn class_prop(&self) -> &'static str {
        match self.case.kind {
            FKind::Cuckoo { .. } => "C14",
            _ => "C13",
        }
    }

    /// Derives the indistinguishability classes black-box (DESIGN 2.3).
    fn derive_classes(&mut self) -> bool {
        let n = self.case.universe.len();
        self.cls = (0..n).collect();
        self.nclasses = n;
        if !self.has_classes {
            return true;
        }
        let mut rel = vec![false; n * n];
        for i in 0..n {
            let mut g = AnyFilter::build(&self.case.kind, self.case.hasher, self.case.rng_seed ^ 0x5eed, &[]);
            match g.insert(self.case.universe[i]) {
                Ok(b) => {
                    if !b {
                        self.viol.push(v(
                            self.class_prop(),
                            format!("{}/insert/ok-false", self.kname),
                            0,
                            format!("insert({}) into an empty filter returned Ok(false)", self.case.universe[i]),
                        ));
                    }
                }
                Err(()) => {
                    self.viol.push(v(
                        self.class_prop(),
                        format!("{}/insert/err-on-empty", self.kname),
                        0,
                        format!("insert({}) into an empty filter returned Err", self.case.universe[i]),
                    ));
                    return false;
                }
            }
            for j in 0..n {
                rel[i * n + j] = g.query(self.case.universe[j]);
            }
            if !rel[i * n + i] {
                self.viol.push(v(
                    "C01",
                    format!("{}/false-negative", self.kname),
                    0,
                    format!("fresh filter: insert({0}) Ok, query({0}) false", self.case.universe[i]),
                ));
                return false;
            }
        }
        // class id = smallest related index; then the relation must be exactly "same id"
        for i in 0..n {
            self.cls[i] = (0..n).find(|&j| rel[i * n + j]).unwrap();
        }
        for i in 0..n {
            for j in 0..n {
                if rel[i * n + j] != (self.cls[i] == self.cls[j]) {
                    self.viol.push(v(
                        self.class_prop(),
                        format!("{}/indistinguishability-not-equivalence", self.kname),
                        0,
                        format!(
                            "holding only {} reports {}: {}, but their classes by first-related-key are {} / {}",
                            self.case.universe[i], self.case.universe[j], rel[i * n + j], self.cls[i], self.cls[j]
                        ),
                    ));
                    return false;
                }
            }
        }
        // compact ids
        let mut map = HashMap::new();
        for c in self.cls.iter_mut() {
            let k = map.len();
            *c = *map.entry(*c).or_insert(k);
        }
        self.nclasses = map.len();
        if self.nclasses < n {
            self.stats.probe("universe_has_class_collisions");
        }
        true
    }

    fn snap(&self, f: &AnyFilter) -> Snap {
        Snap { q: self.case.universe.iter().map(|&k| f.query(k)).collect(), len: f.len(), empty: f.is_empty() }
    }

    /// how often each class can still be deleted (on a clone); Err = a delete panicked
    fn delete_counts(&self, f: &AnyFilter, cap: usize) -> Result<Vec<usize>, String> {
        let mut g = f.fork();
        let mut out = vec![0usize; self.nclasses];
        let mut seen = vec![false; self.nclasses];
        for (i, &k) in self.case.universe.iter().enumerate() {
            let c = self.cls[i];
            if seen[c] {
                continue;
            }
            seen[c] = true;
            while out[c] <= cap {
                match guarded(|| g.delete(k)) {
                    Caught::Ok(Some(true)) => out[c] += 1,
                    Caught::Ok(_) => break,
                    Caught::LibPanic(loc, msg) => {
                        return Err(format!("delete({}) number {} on a clone panicked at {}: {}", k, out[c] + 1, loc, msg))
                    }
                }
            }
        }
        Ok(out)
    }

    fn check_c01(&mut self, m: &Model, s: &Snap, ctx: &str) -> bool {
        if !self.c01_valid {
            return true;
        }
        for (i, &k) in self.case.universe.iter().enumerate() {
            if m.live[i] > 0 && !s.q[i] {
                self.viol.push(v(
                    "C01",
                    format!("{}/false-negative", self.kname),
                    self.step,
                    format!("after {}: key {} inserted {} more times than deleted, query false", ctx, k, m.live[i]),
                ));
                return false;
            }
        }
        true
    }

    /// Compares a filter's observable state with a model state.
    fn check(&mut self, m: &Model, s: &Snap, ctx: &str, mode: Mode) -> bool {
        let mut ok = self.check_c01(m, s, ctx);
        if self.has_classes {
            let (prop, qtag, ltag) = match mode {
                Mode::Normal => (self.class_prop(), "query-mismatch", "len-mismatch"),
                Mode::AfterUnionOk => ("C06", "union/ok-state-mismatch", "union/ok-len-mismatch"),
                Mode::AfterClear => ("C19", "clear/state-mismatch", "clear/len-mismatch"),
            };
            for (i, &k) in self.case.universe.iter().enumerate() {
                let want = m.count[self.cls[i]] > 0;
                if s.q[i] != want {
                    self.viol.push(v(
                        prop,
                        format!("{}/{}", self.kname, qtag),
                        self.step,
                        format!("after {}: query({}) = {}, model holds {} copies of its class", ctx, k, s.q[i], m.count[self.cls[i]]),
                    ));
                    ok = false;
                    break;
                }
            }
            if s.len != m.total {
                self.viol.push(v(
                    prop,
                    format!("{}/{}", self.kname, ltag),
                    self.step,
                    format!("after {}: len() = {}, model = {}", ctx, s.len, m.total),
                ));
                ok = false;
            }
            if mode == Mode::AfterClear && !s.empty {
                self.viol.push(v("C19", format!("{}/clear/not-empty", self.kname), self.step, "is_empty() false after clear()".into()));
                ok = false;
            }
        }
        ok
    }

    fn check_multiplicity(&mut self, f: &AnyFilter, m: &Model, prop: &'static str, class: String, ctx: &str) -> bool {
        if !matches!(self.case.kind, FKind::Cuckoo { .. }) {
            return true;
        }
        let dc = match self.delete_counts(f, m.total + 2) {
            Ok(dc) => dc,
            Err(e) => {
                self.viol.push(v(prop, class, self.step, format!("after {}: {} (model holds {} elements)", ctx, e, m.total)));
                return false;
            }
        };
        for c in 0..self.nclasses {
            if dc[c] != m.count[c] {
                let key = self.case.universe[self.cls.iter().position(|&x| x == c).unwrap()];
                self.viol.push(v(
                    prop,
                    class,
                    self.step,
                    format!("after {}: class of key {} can be deleted {} times, model holds {} copies", ctx, key, dc[c], m.count[c]),
                ));
                return false;
            }
        }
        true
    }

    /// state comparison after a failed operation (C12)
    fn check_unchanged(&mut self, f: &AnyFilter, m: &Model, before: &Snap, after: &Snap, op: &str) -> bool {
        let mut ok = true;
        let class = format!("{}/{}/err-changed-state", self.kname, op);
        if before.q != after.q {
            let i = (0..before.q.len()).find(|&i| before.q[i] != after.q[i]).unwrap();
            self.viol.push(v(
                "C12",
                class.clone(),
                self.step,
                format!("failed {}: query({}) was {} before, {} after", op, self.case.universe[i], before.q[i], after.q[i]),
            ));
            ok = false;
        }
        if after.len != before.len || after.empty != before.empty {
            self.viol.push(v(
                "C12",
                class,
                self.step,
                format!("failed {}: len/is_empty were {}/{} before, {}/{} after", op, before.len, before.empty, after.len, after.empty),
            ));
            ok = false;
        }
        if ok && self.has_classes {
            ok = self.check_multiplicity(f, m, "C12", format!("{}/{}/err-changed-multiplicity", self.kname, op), &format!("failed {}", op));
        }
        ok
    }

    fn build_b(&mut self, spec: &BSpec) -> (AnyFilter, Model) {
        let mut b = AnyFilter::build(&self.case.kind, self.case.hasher, spec.rng_seed, &[]);
        let mut mb = Model::new(self.nclasses, self.case.universe.len());
        for &k in &spec.keys {
            if let Some(&i) = self.idx.get(&k) {
                if b.insert(k).is_ok() {
                    mb.insert_ok(&self.case.kind, self.cls[i], i);
                }
            }
        }
        for &k in &spec.deletes {
            if let Some(&i) = self.idx.get(&k) {
                // only keys the operand itself holds, so that key-level liveness stays meaningful
                if mb.live[i] > 0 && b.delete(k) == Some(true) {
                    let c = self.cls[i];
                    mb.count[c] = mb.count[c].saturating_sub(1);
                    mb.total = mb.total.saturating_sub(1);
                    mb.live[i] -= 1;
                    self.stats.probe("operand_with_holes");
                }
            }
        }
        (b, mb)
    }

    fn chain_fault(&mut self, words: u64) {
        match words {
            0 => {}
            1..=2 => self.stats.fault("evict_chain_1"),
            3..=10 => self.stats.fault("evict_chain_2-9"),
            11..=500 => self.stats.fault("evict_chain_10-499"),
            _ => self.stats.fault("evict_chain_500"),
        }
    }

    /// Executes `insert(k)` on `t` (the filter itself or a clone of it), whose state is `m` / `before`.
    /// Returns the new model when the insert succeeded.
    fn do_insert(&mut self, t: &mut AnyFilter, m: &Model, before: &Snap, k: u64, ctx: &str) -> (Option<Model>, Snap) {
        let i = self.idx[&k];
        let c = self.cls[i];
        let known = m.count[c] > 0;
        let cap = self.case.kind.capacity();
        let p0 = t.rng_pos();
        let res = t.insert(k);
        let words = t.rng_pos() - p0;
        self.chain_fault(words);
        if words as usize > cap && cap > 0 {
            self.stats.probe("same_slot_twice_in_one_chain");
        }
        if self.tape_positions.iter().any(|&tp| tp >= p0 && tp < p0 + words) {
            self.stats.fault("rng_extreme_word");
        }
        let after = self.snap(t);
        self.stats.steps += 1;
        match res {
            Ok(b) => {
                self.stats.sig(10 + b as u64);
                match self.case.kind {
                    FKind::Cuckoo { .. } => {
                        if !b {
                            self.viol.push(v("C14", "cuckoo/insert/ok-false".into(), self.step,
                                format!("{}insert({}) succeeded (len {} -> {}) but returned Ok(false); documented: always Ok(true)", ctx, k, before.len, after.len)));
                        }
                    }
                    FKind::Quotient { .. } => {
                        if b == known {
                            self.viol.push(v("C13", "quotient/insert/return-mismatch".into(), self.step,
                                format!("{}insert({}) returned Ok({}), class known before: {}", ctx, k, b, known)));
                        }
                        if !known && m.total == cap {
                            self.viol.push(v("C13", "quotient/insert/ok-when-full".into(), self.step,
                                format!("{}insert({}) of a new class returned Ok with len() = 2^q = {}", ctx, k, cap)));
                        }
                    }
                    _ => {}
                }
                let mut m2 = m.clone();
                m2.insert_ok(&self.case.kind, c, i);
                self.check(&m2, &after, &format!("{}insert({}) = Ok({})", ctx, k, b), Mode::Normal);
                (Some(m2), after)
            }
            Err(()) => {
                self.stats.sig(12);
                self.stats.fault("full_insert");
                match self.case.kind {
                    FKind::Cuckoo { bucketsize, .. } => {
                        if m.total < bucketsize {
                            self.viol.push(v("C14", "cuckoo/insert/err-below-bucketsize".into(), self.step,
                                format!("{}insert({}) returned Err while the filter holds {} < bucketsize = {} elements", ctx, k, m.total, bucketsize)));
                        }
                    }
                    FKind::Quotient { .. } => {
                        if known || m.total != cap {
                            self.viol.push(v("C13", "quotient/insert/err-not-full".into(), self.step,
                                format!("{}insert({}) returned Err: class known = {}, len = {}, capacity = {}", ctx, k, known, m.total, cap)));
                        }
                    }
                    _ => {
                        self.viol.push(v("C01", format!("{}/insert/err-infallible", self.kname), self.step, "Infallible insert failed".into()));
                    }
                }
                self.check_c01(m, &after, &format!("{}failed insert({})", ctx, k));
                self.check_unchanged(t, m, before, &after, "insert");
                (None, after)
            }
        }
    }

    fn do_union(&mut self, t: &mut AnyFilter, m: &Model, before: &Snap, spec: &BSpec, ctx: &str, measure: bool) -> (Option<Model>, Snap) {
        let (b, mb) = self.build_b(spec);
        let bs = self.snap(&b);
        if self.has_classes {
            self.layout_probes(&mb, true);
        }
        let p0 = t.rng_pos();
        let res = t.union(&b);
        let words = t.rng_pos() - p0;
        if measure && words > 0 {
            self.stats.fault("evict_during_union");
        }
        self.stats.steps += 1;
        let after = self.snap(t);
        let bs2 = self.snap(&b);
        if bs2.q != bs.q || bs2.len != bs.len || bs2.empty != bs.empty {
            for p in ["C12", "C06"] {
                self.viol.push(v(p, format!("{}/union/operand-modified", self.kname), self.step,
                    "the argument of union answers differently after the call".into()));
            }
        }
        let cap = self.case.kind.capacity();
        match res {
            Ok(()) => {
                self.stats.sig(30);
                self.stats.probe("union_ok");
                let mut m2 = m.clone();
                m2.absorb(&self.case.kind, &mb);
                if self.check(&m2, &after, &format!("{}union({:?}) = Ok", ctx, spec.keys), Mode::AfterUnionOk) && self.has_classes {
                    self.check_multiplicity(t, &m2, "C06", format!("{}/union/ok-multiplicity-mismatch", self.kname), "union = Ok");
                }
                (Some(m2), after)
            }
            Err(()) => {
                self.stats.sig(31);
                if self.has_classes && cap != usize::MAX {
                    // position of the failing transfer, as far as it is observable
                    let free = cap.saturating_sub(m.total);
                    let newc = match self.case.kind {
                        FKind::Quotient { .. } => (0..self.nclasses).filter(|&c| mb.count[c] > 0 && m.count[c] == 0).count(),
                        _ => mb.total,
                    };
                    if free == 0 {
                        self.stats.fault("full_union_first");
                    } else if free + 1 >= newc {
                        self.stats.fault("full_union_last");
                    } else {
                        self.stats.fault("full_union_middle");
                    }
                } else {
                    self.viol.push(v("C01", format!("{}/union/err-infallible", self.kname), self.step, "Infallible union failed".into()));
                }
                self.check_c01(m, &after, &format!("{}failed union", ctx));
                self.check_unchanged(t, m, before, &after, "union");
                (None, after)
            }
        }
    }

    fn qr(&self) -> Option<(usize, usize)> {
        match self.case.kind {
            FKind::Quotient { q, r } if self.case.hasher.mode == HashMode::Identity && q <= 12 => Some((q, r)),
            _ => None,
        }
    }

    /// Quotient-filter layout probes, computable from the model under the Identity hasher.
    fn layout_probes(&mut self, m: &Model, sender: bool) {
        let (q, r) = match self.qr() {
            Some(x) => x,
            None => return,
        };
        let size = 1usize << q;
        if m.total == 0 {
            return;
        }
        let mask = if q + r == 64 { u64::MAX } else { (1u64 << (q + r)) - 1 };
        let mut per = vec![0usize; size];
        let mut seen = vec![false; self.nclasses];
        for (i, &k) in self.case.universe.iter().enumerate() {
            let c = self.cls[i];
            if m.count[c] > 0 && !seen[c] {
                seen[c] = true;
                per[((k & mask) >> r) as usize] += 1;
            }
        }
        // over[i]: elements pushed from slot i into slot i+1 (ring); two laps reach the fixpoint
        let mut over = vec![0usize; size];
        let mut carry = 0usize;
        for _lap in 0..2 {
            for i in 0..size {
                let load = carry + per[i];
                carry = load.saturating_sub(1);
                over[i] = carry;
            }
        }
        if m.total >= size {
            self.stats.probe(if sender { "sender_table_full" } else { "table_full" });
            return;
        }
        if over[size - 1] > 0 {
            self.stats.probe(if sender { "sender_cluster_wrap" } else { "cluster_wrap" });
        }
        let used = |i: usize| per[i] > 0 || over[(i + size - 1) % size] > 0;
        // (a library that accepts more classes than slots would leave no free slot: nothing to probe then)
        let start = match (0..size).find(|&i| !used(i)) {
            Some(x) => x,
            None => return,
        };
        let mut runs = 0;
        for d in 1..=size {
            let i = (start + d) % size;
            if used(i) {
                if per[i] > 0 {
                    runs += 1;
                }
            } else {
                if runs >= 3 {
                    self.stats.probe(if sender { "sender_cluster_ge3_runs" } else { "cluster_ge3_runs" });
                }
                runs = 0;
            }
        }
    }

    fn run_position_probe(&mut self, m: &Model, key: u64) {
        let (q, r) = match self.qr() {
            Some(x) => x,
            None => return,
        };
        let mask = if q + r == 64 { u64::MAX } else { (1u64 << (q + r)) - 1 };
        let rmask = (1u64 << r).wrapping_sub(1);
        let fp = key & mask;
        let (quo, rem) = (fp >> r, fp & rmask);
        let (mut smaller, mut larger) = (false, false);
        for (i, &k) in self.case.universe.iter().enumerate() {
            if m.count[self.cls[i]] > 0 {
                let f2 = k & mask;
                if f2 >> r == quo {
                    if f2 & rmask < rem {
                        smaller = true;
                    } else if f2 & rmask > rem {
                        larger = true;
                    }
                }
            }
        }
        match (smaller, larger) {
            (false, true) => self.stats.probe("insert_head_of_run"),
            (true, true) => self.stats.probe("insert_middle_of_run"),
            (true, false) => self.stats.probe("insert_tail_of_run"),
            _ => {}
        }
    }

    fn body(&mut self) {
        let case = self.case;
        let n = case.universe.len();
        for (i, &k) in case.universe.iter().enumerate() {
            self.idx.insert(k, i);
        }
        self.stats.sig(match case.kind {
            FKind::Bloom { .. } => 1,
            FKind::Cuckoo { .. } => 2,
            FKind::Quotient { .. } => 3,
            FKind::Set => 4,
        });
        self.stats.sig(case.hasher.class().len() as u64 + 10 * case.kind.capacity().min(1 << 20) as u64);
        if case.hasher.is_storm() {
            self.stats.fault("hash_storm");
        }
        if let FKind::Quotient { q, r } = case.kind {
            if case.hasher.mode == HashMode::Identity && q + r <= 7 && n == (1usize << (q + r)) {
                self.stats.probe("complete_fingerprint_universe");
            }
        }
        if !self.derive_classes() || self.should_stop() {
            return;
        }
        let mut f = AnyFilter::build(&case.kind, case.hasher, case.rng_seed, &case.tape);
        let mut m = Model::new(self.nclasses, n);
        let mut prev = self.snap(&f);
        if !self.check(&m, &prev.clone(), "construction", Mode::Normal) {
            return;
        }
        let mut forks: Vec<(AnyFilter, Snap, Model, usize)> = vec![];
        let is_cuckoo = matches!(case.kind, FKind::Cuckoo { .. });

        for (step, op) in case.ops.iter().enumerate() {
            self.step = step + 1;
            match op {
                FOp::Insert(k) => {
                    let i = match self.idx.get(k) {
                        Some(&i) => i,
                        None => continue,
                    };
                    if self.has_classes && m.count[self.cls[i]] == 0 {
                        self.run_position_probe(&m, *k);
                    }
                    let (nm, after) = self.do_insert(&mut f, &m, &prev, *k, "");
                    if self.should_stop() {
                        return;
                    }
                    if let Some(nm) = nm {
                        m = nm;
                    }
                    prev = after;
                }
                FOp::Delete(k) => {
                    if !is_cuckoo {
                        continue;
                    }
                    let i = match self.idx.get(k) {
                        Some(&i) => i,
                        None => continue,
                    };
                    if m.live[i] <= 0 {
                        if case.guard_deletes {
                            self.stats.probe("guarded_delete_skipped");
                            continue;
                        }
                        // key-level liveness no longer tells which copies remain
                        self.c01_valid = false;
                    }
                    let c = self.cls[i];
                    let want = m.count[c] > 0;
                    let got = f.delete(*k).unwrap();
                    self.stats.steps += 1;
                    self.stats.sig(20 + got as u64);
                    if !want {
                        self.stats.probe("delete_absent");
                    }
                    if got != want {
                        self.viol.push(v("C14", "cuckoo/delete/return-mismatch".into(), self.step,
                            format!("delete({}) returned {}, model holds {} copies of its class", k, got, m.count[c])));
                    }
                    if got {
                        m.count[c] = m.count[c].saturating_sub(1);
                        m.total = m.total.saturating_sub(1);
                        m.live[i] -= 1;
                    }
                    let after = self.snap(&f);
                    self.check(&m, &after, &format!("delete({}) = {}", k, got), Mode::Normal);
                    if self.should_stop() {
                        return;
                    }
                    prev = after;
                }
                FOp::Union(spec) => {
                    let (nm, after) = self.do_union(&mut f, &m, &prev, spec, "", true);
                    if self.should_stop() {
                        return;
                    }
                    if let Some(nm) = nm {
                        m = nm;
                    }
                    prev = after;
                }
                FOp::TryUnion(spec) => {
                    let mut g = f.fork();
                    self.stats.fault("fork");
                    let _ = self.do_union(&mut g, &m, &prev, spec, "on a clone: ", true);
                    if self.should_stop() {
                        return;
                    }
                }
                FOp::EnumInserts { salts } => {
                    for s in 0..(*salts as u64) {
                        for ki in 0..n {
                            let mut g = f.fork();
                            g.set_salt(1 + s);
                            let _ = self.do_insert(&mut g, &m, &prev, case.universe[ki], "on a clone: ");
                            g.set_salt(0);
                            if self.should_stop() {
                                return;
                            }
                        }
                    }
                    self.stats.fault("fork");
                    self.stats.probe("enum_inserts_base_states");
                    // the clones must not have disturbed the original
                    let now = self.snap(&f);
                    if now.q != prev.q || now.len != prev.len {
                        self.viol.push(v("C19", format!("{}/clone/not-independent", self.kname), self.step,
                            "mutating clones changed the original".into()));
                        return;
                    }
                }
                FOp::UnionMismatch(spec, variant) => {
                    let other_kind = match (&case.kind, variant % 3) {
                        (FKind::Bloom { m, k }, 0) => FKind::Bloom { m: (m / 2).max(1), k: *k },
                        (FKind::Bloom { m, k }, 1) => FKind::Bloom { m: m * 2, k: *k },
                        (FKind::Bloom { m, k }, _) => FKind::Bloom { m: *m, k: k + 1 },
                        (FKind::Cuckoo { bucketsize, n_buckets, l_fp }, 0) => FKind::Cuckoo { bucketsize: *bucketsize, n_buckets: n_buckets * 2, l_fp: *l_fp },
                        (FKind::Cuckoo { bucketsize, n_buckets, l_fp }, 1) => FKind::Cuckoo { bucketsize: bucketsize + 1, n_buckets: *n_buckets, l_fp: *l_fp },
                        (FKind::Cuckoo { bucketsize, n_buckets, l_fp }, _) => FKind::Cuckoo { bucketsize: *bucketsize, n_buckets: *n_buckets, l_fp: if *l_fp > 2 { l_fp - 1 } else { l_fp + 1 } },
                        (FKind::Quotient { q, r }, 0) if q + r < 64 => FKind::Quotient { q: q + 1, r: *r },
                        (FKind::Quotient { q, r }, 1) if *q > 1 => FKind::Quotient { q: q - 1, r: *r },
                        (FKind::Quotient { q, r }, _) => FKind::Quotient { q: *q, r: if *r > 1 { r - 1 } else { r + 1 } },
                        (FKind::Set, _) => continue,
                    };
                    if other_kind == case.kind {
                        continue;
                    }
                    let mut b = AnyFilter::build(&other_kind, case.hasher, spec.rng_seed, &[]);
                    let mut b_live: Vec<u64> = vec![];
                    for &k in &spec.keys {
                        if self.idx.contains_key(&k) && b.insert(k).is_ok() {
                            b_live.push(k);
                        }
                    }
                    self.stats.steps += 1;
                    match guarded(|| f.union(&b)) {
                        Caught::LibPanic(..) => {
                            // the documented reaction; the assertion fires before anything is written
                            self.stats.probe("mismatched_union_panicked");
                        }
                        Caught::Ok(res) => {
                            self.stats.probe("mismatched_union_returned");
                            if res.is_ok() {
                                let after = self.snap(&f);
                                let mut lost = None;
                                for (i, &k) in case.universe.iter().enumerate() {
                                    if (m.live[i] > 0 || b_live.contains(&k)) && !after.q[i] {
                                        lost = Some(k);
                                        break;
                                    }
                                }
                                if let (Some(k), true) = (lost, self.c01_valid) {
                                    self.viol.push(v("C01", format!("{}/union/mismatched-operand-accepted-false-negative", self.kname), self.step,
                                        format!("union with an operand of configuration {:?} (self: {:?}) returned Ok, afterwards key {} of a or b is not reported", other_kind, case.kind, k)));
                                }
                            }
                            // whatever was accepted, the model no longer describes the filter
                            return;
                        }
                    }
                }
                FOp::Clear => {
                    f.clear();
                    self.stats.fault("node_restart");
                    self.stats.steps += 1;
                    self.stats.sig(40);
                    m = Model::new(self.nclasses, n);
                    self.c01_valid = true;
                    let after = self.snap(&f);
                    self.check(&m, &after, "clear()", Mode::AfterClear);
                    if self.should_stop() {
                        return;
                    }
                    prev = after;
                }
                FOp::Fork => {
                    self.stats.fault("fork");
                    self.stats.sig(41);
                    forks.push((f.fork(), prev.clone(), m.clone(), self.step));
                }
            }
            if is_cuckoo && self.step % 16 == 0 {
                self.check_multiplicity(&f, &m, "C14", "cuckoo/multiplicity-mismatch".into(), "checkpoint");
                if self.should_stop() {
                    return;
                }
            }
        }
        self.step = case.ops.len() + 1;
        if is_cuckoo {
            self.check_multiplicity(&f, &m, "C14", "cuckoo/multiplicity-mismatch".into(), "the last operation");
        }
        self.layout_probes(&m, false);
        for (g, s, _mg, at) in forks {
            let now = self.snap(&g);
            if now.q != s.q || now.len != s.len || now.empty != s.empty {
                self.viol.push(v("C19", format!("{}/clone/not-independent", self.kname), self.step,
                    format!("clone taken at step {} answers differently after the original was mutated", at)));
            }
        }
    }
}

// ---------------------------------------------------------------------------
// generation

fn gen_hasher(g: &mut Sm, kind: &FKind) -> SimHasher {
    let seed = g.u64();
    let id_share = if matches!(kind, FKind::Quotient { .. }) { 40 } else { 25 };
    let x = g.below(100);
    let mode = if x < id_share {
        HashMode::Identity
    } else if x < id_share + 10 {
        // few bits of entropy, placed low, high or scattered
        let bits = g.range(1, 6);
        let mut mask = 0u64;
        for _ in 0..bits {
            mask |= 1u64 << match g.below(3) {
                0 => g.below(8),
                1 => 56 + g.below(8),
                _ => g.below(64),
            };
        }
        HashMode::Mask(mask)
    } else if x < id_share + 20 {
        HashMode::Buckets(g.range(1, 8) as u32)
    } else if x < id_share + 35 {
        HashMode::Sip
    } else {
        HashMode::Mix
    };
    SimHasher::new(mode, if mode == HashMode::Sip && g.chance(1, 2) { 0 } else { seed })
}

pub fn gen_kind(g: &mut Sm, which: u8, realistic: bool) -> FKind {
    match which {
        0 => FKind::Bloom { m: if realistic { if g.chance(1, 3) { *g.pick(&[65_535usize, 65_536, 65_537, 100_003, 1 << 20]) } else { g.range(256, 8192) as usize } } else { g.range(1, 64) as usize }, k: g.below(5) as usize },
        1 => {
            if realistic {
                FKind::Cuckoo { bucketsize: *g.pick(&[2, 4, 8]), n_buckets: 1 << g.range(4, 10), l_fp: *g.pick(&[8, 12, 16, 32, 64]) }
            } else {
                FKind::Cuckoo { bucketsize: g.range(2, 4) as usize, n_buckets: 1 << g.range(1, 3), l_fp: if g.chance(3, 20) { *g.pick(&[13, 16, 31, 32, 33, 63, 64, 64]) } else { g.range(2, 8) as usize } }
            }
        }
        2 => {
            if realistic {
                let q = g.range(5, 12) as usize;
                FKind::Quotient { q, r: *g.pick(&[4usize, 8, 16, 32, 52]).min(&(64 - q)) }
            } else {
                let q = g.range(1, 4) as usize;
                let r = if g.chance(1, 8) { *g.pick(&[16usize, 32, 33, 40, 48, 60]) } else { g.range(1, 4) as usize };
                FKind::Quotient { q, r: r.min(64 - q) }
            }
        }
        _ => FKind::Set,
    }
}

/// Key universe. Under `Identity` the keys are crafted so that classes collide and neighbourhoods
/// fill; otherwise they are arbitrary words (collisions then come from the hasher mode).
pub fn gen_universe(g: &mut Sm, kind: &FKind, hasher: &SimHasher, n: usize) -> Vec<u64> {
    // small widths under the Identity hasher: a third of the runs sweep the *complete* fingerprint
    // universe, so that every phantom a slot-bookkeeping error could produce is looked at
    if hasher.mode == HashMode::Identity && g.chance(1, 3) {
        match *kind {
            FKind::Quotient { q, r } if q + r <= 7 => {
                return (0..(1u64 << (q + r))).collect();
            }
            FKind::Cuckoo { n_buckets, l_fp, .. } if l_fp <= 4 && n_buckets <= 8 => {
                let mut u = vec![];
                for fp in 0..((1u64 << l_fp) - 1) {
                    for b in 0..n_buckets as u64 {
                        u.push((fp << 32) | b);
                    }
                }
                return u;
            }
            _ => {}
        }
    }
    let mut u: Vec<u64> = Vec::with_capacity(n);
    let mut tries = 0;
    while u.len() < n && tries < 20 * n {
        tries += 1;
        let k = if hasher.mode == HashMode::Identity {
            match *kind {
                FKind::Quotient { q, r } => {
                    let bits = q + r;
                    let quo = g.below(1u64 << q);
                    let rspan = if r >= 63 { u64::MAX } else { 1u64 << r };
                    let rem = if g.chance(1, 6) { g.below(rspan) } else { g.below(rspan.min(3)) };
                    let fp = (quo << r) | rem;
                    let noise = if bits == 64 || g.chance(1, 3) { 0 } else { g.u64() << bits };
                    fp | noise
                }
                FKind::Cuckoo { n_buckets, l_fp, .. } => {
                    let fpspan = if l_fp >= 32 { u32::MAX as u64 } else { ((1u64 << l_fp) - 1) * 2 + 1 };
                    let fp = if l_fp >= 63 && g.chance(1, 4) {
                        // fingerprint hashes at the top of the u64 range (see HashMode::Identity)
                        *g.pick(&[0xFFFF_FFFFu64, 0xFFFF_FFFE, 0xFFFF_FFFD, 0xFFFF_FF00])
                    } else {
                        g.below(fpspan.min(12)) + if g.chance(1, 6) { g.below(fpspan) } else { 0 }
                    };
                    let bucket = g.below(2 * n_buckets as u64);
                    ((fp & 0xffff_ffff) << 32) | bucket
                }
                _ => g.below(4096) << 32 | g.below(4096),
            }
        } else if g.chance(1, 2) {
            g.below(4 * n as u64)
        } else {
            g.u64()
        };
        // aliases: a key that differs from an existing one in a single bit (truncation of a
        // fingerprint, remainder or index to a narrower integer makes such keys collide)
        let k = if !u.is_empty() && g.chance(1, 5) {
            let base = u[g.usize(u.len())];
            let bit = match g.below(4) {
                0 => g.below(64),
                1 => 32 + g.below(32),
                2 => 16 + g.below(16),
                _ => g.below(16),
            };
            base ^ (1u64 << bit)
        } else {
            k
        };
        if !u.contains(&k) {
            u.push(k);
        }
    }
    u
}

fn gen_tape(g: &mut Sm, max_pos: u64) -> Vec<(u64, u64)> {
    let mut tape = vec![];
    if g.chance(1, 3) {
        let cnt = g.range(1, 12);
        for _ in 0..cnt {
            tape.push((g.below(max_pos), *g.pick(&EXTREME_WORDS)));
        }
        tape.sort();
        tape.dedup_by_key(|t| t.0);
        // never a long constant stretch: rand's rejection sampling must be able to leave it
    }
    tape
}

impl Scenario for S1 {
    type Case = FilterCase;
    const NAME: &'static str = "S1-filter-node";
    const RULE: &'static str = "one filter (bloom/cuckoo/quotient/hashset by property) with tiny tables (10% realistic sizes), hasher mode, key universe, RNG tape and an operation list are all drawn from the run seed; the indistinguishability classes are derived black-box per run; every operation is followed by a sweep of the whole universe against the class model";

    fn generate(seed: u64, _run: u64, prop: &'static str, _tier: Tier) -> FilterCase {
        let mut g = Sm::new(seed);
        let which = match prop {
            "C13" => 2,
            "C14" => 1,
            "C12" => 1 + g.below(2) as u8,
            _ => {
                let x = g.below(100);
                if x < 25 {
                    0
                } else if x < 60 {
                    1
                } else if x < 90 {
                    2
                } else {
                    3
                }
            }
        };
        let realistic = g.chance(1, 10);
        let kind = gen_kind(&mut g, which, realistic);
        let hasher = gen_hasher(&mut g, &kind);
        let n = if realistic { g.range(16, 96) } else { g.range(4, 48) } as usize;
        let universe = gen_universe(&mut g, &kind, &hasher, n);
        let n = universe.len();
        let rng_seed = g.u64();
        let nops = if realistic { g.range(20, 200) } else { g.range(1, 90) } as usize;
        let tape = gen_tape(&mut g, 40 + 4 * nops as u64);
        let is_cuckoo = which == 1;
        let p_delete = if is_cuckoo { *g.pick(&[0u64, 5, 15, 30]) } else { 0 };
        let p_union = if prop == "C12" { 12 } else { *g.pick(&[0u64, 2, 6]) };
        let p_try = if prop == "C12" { 10 } else { 1 };
        // EnumInserts is expensive (|U| x salts clones, each possibly walking 500 kicks): at most a few per run
        let mut enum_budget = if is_cuckoo && prop == "C12" { g.range(0, 2) } else if is_cuckoo && prop == "C14" { g.below(3) / 2 } else { 0 };
        let p_enum = if enum_budget > 0 { 3 } else { 0 };
        let hot = g.range(1, n as u64) as usize;
        let mut ops = Vec::with_capacity(nops);
        let pick_key = |g: &mut Sm| -> u64 {
            if g.chance(2, 3) {
                universe[g.usize(hot)]
            } else {
                universe[g.usize(n)]
            }
        };
        // C12 staircase: a fixed B tried against an A that fills up one insert at a time
        let stair = prop == "C12" && g.chance(1, 2);
        let gen_deletes = |g: &mut Sm, keys: &[u64]| -> Vec<u64> {
            if is_cuckoo && !keys.is_empty() && g.chance(2, 5) {
                (0..g.range(1, 1 + keys.len() as u64 / 2)).map(|_| keys[g.usize((keys.len() + 1) / 2)]).collect()
            } else {
                vec![]
            }
        };
        let stair_keys: Vec<u64> = (0..g.range(1, 8)).map(|_| pick_key(&mut g)).collect();
        let stair_b = BSpec { deletes: gen_deletes(&mut g, &stair_keys), keys: stair_keys, rng_seed: g.u64() };
        while ops.len() < nops {
            let x = g.below(100);
            if stair && x < 45 {
                ops.push(FOp::Insert(pick_key(&mut g)));
                ops.push(FOp::TryUnion(stair_b.clone()));
            } else if x < p_delete {
                ops.push(FOp::Delete(pick_key(&mut g)));
            } else if x < p_delete + p_union {
                let nk = g.range(0, 10);
                let keys: Vec<u64> = (0..nk).map(|_| pick_key(&mut g)).collect();
                ops.push(FOp::Union(BSpec { deletes: gen_deletes(&mut g, &keys), keys, rng_seed: g.u64() }));
            } else if x < p_delete + p_union + p_try {
                let nk = g.range(1, 10);
                let keys: Vec<u64> = (0..nk).map(|_| pick_key(&mut g)).collect();
                ops.push(FOp::TryUnion(BSpec { deletes: gen_deletes(&mut g, &keys), keys, rng_seed: g.u64() }));
            } else if x < p_delete + p_union + p_try + p_enum && enum_budget > 0 {
                enum_budget -= 1;
                ops.push(FOp::EnumInserts { salts: g.range(1, 3) as u8 });
            } else if x < p_delete + p_union + p_try + p_enum + 1 {
                ops.push(if g.chance(1, 2) { FOp::Clear } else { FOp::Fork });
            } else if prop == "C01" && x < p_delete + p_union + p_try + p_enum + 2 && g.chance(1, 3) {
                let nk = g.range(1, 8);
                let keys: Vec<u64> = (0..nk).map(|_| pick_key(&mut g)).collect();
                ops.push(FOp::UnionMismatch(BSpec { keys, rng_seed: g.u64(), deletes: vec![] }, g.below(3) as u8));
            } else {
                ops.push(FOp::Insert(pick_key(&mut g)));
            }
        }
        FilterCase { kind, hasher, rng_seed, tape, universe, guard_deletes: prop == "C01", ops }
    }

    fn execute(case: &FilterCase, prop: &'static str) -> Outcome {
        let mut ex = Exec {
            case,
            kname: case.kind.name(),
            idx: HashMap::new(),
            cls: vec![],
            nclasses: 0,
            has_classes: case.kind.has_classes(),
            stats: RunStats::default(),
            viol: vec![],
            step: 0,
            c01_valid: true,
            tape_positions: case.tape.iter().map(|t| t.0).collect(),
            prop,
        };
        let r = guarded(|| ex.body());
        if let Caught::LibPanic(loc, msg) = r {
            let class = format!("{}/panic/{}", ex.kname, panic_site(&loc));
            ex.viol.push(Violation { property: prop, class, step: ex.step, detail: format!("panic at {}: {}", loc, msg) });
        }
        let viol = ex.viol.into_iter().filter(|x| x.property == prop).collect();
        Outcome { stats: ex.stats, violations: viol }
    }

    fn shrink(case: &FilterCase) -> Vec<FilterCase> {
        let mut out = vec![];
        for ops in shrink_vec(&case.ops) {
            let mut c = case.clone();
            c.ops = ops;
            out.push(c);
        }
        // simplify union operands
        for (i, op) in case.ops.iter().enumerate() {
            if let FOp::Union(s) | FOp::TryUnion(s) = op {
                for keys in shrink_vec(&s.keys) {
                    let mut c = case.clone();
                    let ns = BSpec { keys, rng_seed: s.rng_seed, deletes: s.deletes.clone() };
                    c.ops[i] = if matches!(op, FOp::Union(_)) { FOp::Union(ns) } else { FOp::TryUnion(ns) };
                    out.push(c);
                }
            }
            if let FOp::Union(sp) | FOp::TryUnion(sp) = op {
                if !sp.deletes.is_empty() {
                    for d in shrink_vec(&sp.deletes) {
                        let mut c = case.clone();
                        let ns = BSpec { keys: sp.keys.clone(), rng_seed: sp.rng_seed, deletes: d };
                        c.ops[i] = if matches!(op, FOp::Union(_)) { FOp::Union(ns) } else { FOp::TryUnion(ns) };
                        out.push(c);
                    }
                }
            }
            if let FOp::EnumInserts { salts } = op {
                if *salts > 1 {
                    let mut c = case.clone();
                    c.ops[i] = FOp::EnumInserts { salts: 1 };
                    out.push(c);
                }
            }
        }
        // drop tape entries
        if !case.tape.is_empty() {
            let mut c = case.clone();
            c.tape.clear();
            out.push(c);
            for t in shrink_vec(&case.tape) {
                let mut c = case.clone();
                c.tape = t;
                out.push(c);
            }
        }
        // drop universe keys that no operation mentions, then any key
        let used: std::collections::HashSet<u64> = case
            .ops
            .iter()
            .flat_map(|op| match op {
                FOp::Insert(k) | FOp::Delete(k) => vec![*k],
                FOp::Union(s) | FOp::TryUnion(s) | FOp::UnionMismatch(s, _) => s.keys.clone(),
                _ => vec![],
            })
            .collect();
        let only_used: Vec<u64> = case.universe.iter().cloned().filter(|k| used.contains(k)).collect();
        if only_used.len() < case.universe.len() && !only_used.is_empty() {
            let mut c = case.clone();
            c.universe = only_used;
            out.push(c);
        }
        if case.universe.len() > 1 {
            for u in shrink_vec(&case.universe) {
                if !u.is_empty() {
                    let mut c = case.clone();
                    c.universe = u;
                    out.push(c);
                }
            }
        }
        out
    }
}

/// Delta-debugging candidates for a list: remove chunks of decreasing size.
pub fn shrink_vec<T: Clone>(xs: &[T]) -> Vec<Vec<T>> {
    let n = xs.len();
    let mut out = vec![];
    if n == 0 {
        return out;
    }
    let mut chunk = n;
    while chunk >= 1 {
        let mut start = 0;
        let mut emitted = 0;
        // remove from the end first: the violation ends the run, the tail is dead weight
        let mut starts = vec![];
        while start < n {
            starts.push(start);
            start += chunk;
        }
        for &s in starts.iter().rev() {
            let e = (s + chunk).min(n);
            let mut vv = Vec::with_capacity(n - (e - s));
            vv.extend_from_slice(&xs[..s]);
            vv.extend_from_slice(&xs[e..]);
            out.push(vv);
            emitted += 1;
            if emitted >= 64 {
                break;
            }
        }
        if chunk == 1 {
            break;
        }
        chunk = (chunk + 1) / 2;
    }
    out
}
