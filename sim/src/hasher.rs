//! The injected `BuildHasher`. The simulator decides where every key lands.
//!
//! The library always hashes `[IV as usize, key]` (Bloom, CMS, Cuckoo) or `[key]` alone
//! (Quotient filter, HyperLogLog); keys in the simulator are `u64`, so the hasher sees one or two
//! machine words and can give them meaning.
use crate::rng::{mix2, mix64};
use serde::{Deserialize, Serialize};
use std::collections::hash_map::DefaultHasher;
use std::hash::{BuildHasher, Hasher};

#[derive(Clone, Copy, Debug, PartialEq, Eq, Serialize, Deserialize)]
pub enum HashMode {
    /// A good 64-bit mixer: the stand-in for a healthy hash function.
    Mix,
    /// `mix & mask`: only the masked bits carry entropy (collision storm when few bits are set).
    Mask(u64),
    /// All keys fall into `c` hash values (per run); `c = 1` collides everything, whole CMS rows
    /// and all Bloom positions included.
    Buckets(u32),
    /// One word hashed: the hash *is* the word. Two words `[iv, x]`: `x >> 32` when `iv == 0` (its top
    /// 256 values spread onto the top of the u64 range),
    /// `x & 0xffff_ffff` otherwise. The generator thereby places quotient/remainder, HLL register
    /// and rank, cuckoo fingerprint (high half) and bucket (low half), Bloom/CMS `h1`/`h2`.
    Identity,
    /// Real SipHash-1-3 (`DefaultHasher`), keyed by prefixing the seed when it is non-zero:
    /// the production hash function behind the same seam.
    Sip,
}

#[derive(Clone, Copy, Debug, PartialEq, Eq, Serialize, Deserialize)]
pub struct SimHasher {
    pub mode: HashMode,
    pub seed: u64,
}

impl SimHasher {
    pub fn new(mode: HashMode, seed: u64) -> Self {
        SimHasher { mode, seed }
    }
    pub fn class(&self) -> &'static str {
        match self.mode {
            HashMode::Mix => "mix",
            HashMode::Mask(_) => "mask",
            HashMode::Buckets(_) => "buckets",
            HashMode::Identity => "identity",
            HashMode::Sip => "sip",
        }
    }
    pub fn is_storm(&self) -> bool {
        match self.mode {
            HashMode::Mask(m) => m.count_ones() <= 2,
            HashMode::Buckets(c) => c <= 4,
            _ => false,
        }
    }
}

pub struct SimHasherState {
    mode: HashMode,
    seed: u64,
    n: u32,
    first: u64,
    last: u64,
    acc: u64,
    sip: Option<DefaultHasher>,
}

impl SimHasherState {
    #[inline]
    fn word(&mut self, w: u64) {
        if let Some(s) = self.sip.as_mut() {
            s.write_u64(w);
            return;
        }
        if self.n == 0 {
            self.first = w;
        }
        self.last = w;
        self.n += 1;
        self.acc = mix2(self.acc, w);
    }
}

impl SimHasherState {
    fn narrow(&mut self, v: u64, bytes: u64) {
        self.word(mix2(v, 0x6e61_7272_6f77_0000 | bytes));
    }
}

impl Hasher for SimHasherState {
    fn finish(&self) -> u64 {
        match self.mode {
            HashMode::Sip => self.sip.as_ref().unwrap().finish(),
            HashMode::Mix => mix64(self.acc),
            HashMode::Mask(m) => mix64(self.acc) & m,
            HashMode::Buckets(c) => mix2(self.seed, mix64(self.acc) % (c.max(1) as u64)),
            HashMode::Identity => {
                if self.n <= 1 {
                    self.last
                } else if self.first == 0 {
                    // the top 256 values of the 32-bit field map onto the top of the 64-bit range, so
                    // that the generator can also place hashes such as u64::MAX and u64::MAX - 1
                    let v = self.last >> 32;
                    if v >= 0xFFFF_FF00 {
                        u64::MAX - (0xFFFF_FFFF - v)
                    } else {
                        v
                    }
                } else {
                    self.last & 0xffff_ffff
                }
            }
        }
    }
    fn write(&mut self, bytes: &[u8]) {
        if let Some(s) = self.sip.as_mut() {
            s.write(bytes);
            return;
        }
        for chunk in bytes.chunks(8) {
            let mut b = [0u8; 8];
            b[..chunk.len()].copy_from_slice(chunk);
            self.word(u64::from_le_bytes(b));
        }
    }
    #[inline]
    fn write_u64(&mut self, i: u64) {
        self.word(i)
    }
    #[inline]
    fn write_usize(&mut self, i: usize) {
        self.word(i as u64)
    }
    // Narrower integers are not the same input as a u64 of equal value: a real hasher consumes
    // 1, 2 or 4 bytes for them. (The library hashes u64 keys, u64 fingerprints and usize
    // initialisation words under this seam, so these paths are taken only if a change to the
    // library starts hashing a narrowed value on one side of a computation.)
    #[inline]
    fn write_u32(&mut self, i: u32) {
        if let Some(s) = self.sip.as_mut() {
            s.write_u32(i);
            return;
        }
        self.narrow(i as u64, 4)
    }
    #[inline]
    fn write_u16(&mut self, i: u16) {
        if let Some(s) = self.sip.as_mut() {
            s.write_u16(i);
            return;
        }
        self.narrow(i as u64, 2)
    }
    #[inline]
    fn write_u8(&mut self, i: u8) {
        if let Some(s) = self.sip.as_mut() {
            s.write_u8(i);
            return;
        }
        self.narrow(i as u64, 1)
    }
}

impl BuildHasher for SimHasher {
    type Hasher = SimHasherState;
    fn build_hasher(&self) -> SimHasherState {
        let sip = if self.mode == HashMode::Sip {
            let mut h = DefaultHasher::default();
            if self.seed != 0 {
                h.write_u64(self.seed);
            }
            Some(h)
        } else {
            None
        };
        SimHasherState { mode: self.mode, seed: self.seed, n: 0, first: 0, last: 0, acc: self.seed, sip }
    }
}
