//! S2 — replicas: 2..5 nodes each hold one structure of the same configuration and hasher, ingest
//! partial streams and exchange snapshots over a simulated network that reorders, duplicates,
//! drops and partitions; nodes restart (`clear`). Serves C06, C02 (CMS nodes) and C01 (filter nodes).
use crate::anyf::{AnyFilter, FKind};
use crate::anyn::{AnyNode, Hll, NKind};
use crate::framework::*;
use crate::hasher::{HashMode, SimHasher};
use crate::rng::Sm;
use crate::s1_filters::{gen_kind, gen_universe, shrink_vec};
use serde::{Deserialize, Serialize};
use serde_json::{json, Value};
use std::collections::BTreeMap;

#[derive(Clone, Debug, Serialize, Deserialize)]
pub enum NOp {
    Ingest { node: usize, key: u64, weight: u64 },
    /// cuckoo nodes only: delete a key the node currently holds (leaves a hole in a bucket)
    Remove { node: usize, key: u64 },
    /// node ships a snapshot of its state; `json`: through serde_json bytes (HLL only)
    Snapshot { node: usize, id: u32, json: bool },
    /// the network delivers message `id` to `to`; `keep` leaves a copy in flight (duplication)
    Deliver { id: u32, to: usize, keep: bool },
    Drop { id: u32 },
    Restart { node: usize },
    /// bookkeeping of the generator's network model; no effect on the structures
    Partition { mask: u32 },
    Heal,
    Blocked { id: u32, to: usize },
    /// algebraic probes on clones of three nodes
    Algebra { a: usize, b: usize, c: usize },
    /// a node of a *different* configuration (same structure type) that holds `from`'s content is
    /// merged into `to`. The documented reaction is a panic; if the call returns Ok instead, the
    /// receiver has to honour C01 / C02 / C06 for the absorbed content.
    MergeMismatch { from: usize, to: usize, variant: u8 },
    /// state transfer: a scratch node of a *different* configuration that already holds a few
    /// elements (some of them not yet flushed by any read) is overwritten with
    /// `Clone::clone_from(&nodes[from])` and must then be a copy of that node in every respect
    InstallOdd { from: usize, variant: u8 },
    /// faults off: convergence phase
    Converge,
}

#[derive(Clone, Debug, Serialize, Deserialize)]
pub struct ReplicaCase {
    pub kind: NKind,
    pub hasher: SimHasher,
    pub nodes: usize,
    pub rng_seed: u64,
    pub universe: Vec<u64>,
    pub ops: Vec<NOp>,
}

pub struct S2;

type Content = BTreeMap<u64, u64>;

struct Msg {
    state: AnyNode,
    content: Content,
    obs: Vec<u64>,
    from: usize,
    delivered: u32,
}

fn v(property: &'static str, class: String, step: usize, detail: String) -> Violation {
    Violation { property, class, step, detail }
}

fn total(c: &Content) -> u64 {
    c.values().sum()
}

fn absorb(dst: &mut Content, src: &Content, counting: bool) {
    for (k, w) in src {
        let e = dst.entry(*k).or_insert(0);
        if counting {
            *e += *w;
        } else {
            *e = 1;
        }
    }
}

/// black-box indistinguishability classes for the cuckoo filter (see S1); None if the relation is
/// not an equivalence (S1 reports that, S2 then skips the class oracle)
pub fn derive_classes(kind: &FKind, hasher: SimHasher, universe: &[u64]) -> Option<Vec<usize>> {
    let n = universe.len();
    let mut rel = vec![false; n * n];
    for i in 0..n {
        let mut g = AnyFilter::build(kind, hasher, 0x5eed, &[]);
        if g.insert(universe[i]).is_err() {
            return None;
        }
        for j in 0..n {
            rel[i * n + j] = g.query(universe[j]);
        }
    }
    let cls: Vec<usize> = (0..n).map(|i| (0..n).find(|&j| rel[i * n + j]).unwrap_or(i)).collect();
    for i in 0..n {
        for j in 0..n {
            if rel[i * n + j] != (cls[i] == cls[j]) {
                return None;
            }
        }
    }
    Some(cls)
}

struct Exec<'a> {
    case: &'a ReplicaCase,
    kname: &'static str,
    stats: RunStats,
    viol: Vec<Violation>,
    step: usize,
    counting: bool,
    is_cuckoo: bool,
    cls: Option<Vec<usize>>,
}

impl<'a> Exec<'a> {
    /// reference: a fresh instance of the same configuration fed the content sequentially
    fn reference(&mut self, content: &Content) -> Option<AnyNode> {
        let mut r = AnyNode::build(&self.case.kind, self.case.hasher, self.case.rng_seed ^ 0xfeed);
        for (&k, &w) in content {
            if r.ingest(k, w.max(1)).is_err() {
                return None;
            }
        }
        Some(r)
    }

    /// cuckoo: compare with the class multiset of the content
    fn check_cuckoo_multiset(&mut self, node: &AnyNode, content: &Content, prop: &'static str, ctx: &str) -> bool {
        let cls = match &self.cls {
            Some(c) => c.clone(),
            None => return true,
        };
        let f = match node {
            AnyNode::Filter(f) => f,
            _ => return true,
        };
        let u = &self.case.universe;
        let ncls = cls.iter().max().map(|m| m + 1).unwrap_or(0);
        let mut count = vec![0u64; ncls];
        for (i, k) in u.iter().enumerate() {
            if let Some(w) = content.get(k) {
                count[cls[i]] += *w;
            }
        }
        let tot: u64 = count.iter().sum();
        if f.len() as u64 != tot {
            self.viol.push(v(prop, format!("{}/merge/len-mismatch", self.kname), self.step, format!("{}: len() = {}, logical content holds {} elements", ctx, f.len(), tot)));
            return false;
        }
        for (i, &k) in u.iter().enumerate() {
            if f.query(k) != (count[cls[i]] > 0) {
                self.viol.push(v(prop, format!("{}/merge/state-mismatch", self.kname), self.step,
                    format!("{}: query({}) = {}, logical content holds {} copies of its class", ctx, k, f.query(k), count[cls[i]])));
                return false;
            }
        }
        // remaining multiplicities on a clone
        let mut g = f.fork();
        let mut seen = vec![false; ncls];
        for (i, &k) in u.iter().enumerate() {
            let c = cls[i];
            if seen[c] {
                continue;
            }
            seen[c] = true;
            let mut n = 0u64;
            while n <= tot + 1 {
                match guarded(|| g.delete(k)) {
                    Caught::Ok(Some(true)) => n += 1,
                    Caught::Ok(_) => break,
                    Caught::LibPanic(loc, msg) => {
                        self.viol.push(v(prop, format!("{}/merge/multiplicity-mismatch", self.kname), self.step, format!("{}: delete({}) on a clone panicked at {}: {}", ctx, k, loc, msg)));
                        return false;
                    }
                }
            }
            if n != count[c] {
                self.viol.push(v(prop, format!("{}/merge/multiplicity-mismatch", self.kname), self.step,
                    format!("{}: class of {} can be deleted {} times, logical content holds {}", ctx, k, n, count[c])));
                return false;
            }
        }
        true
    }

    /// C06: node is observationally equal to the reference of its logical content
    fn check_equivalence(&mut self, node: &AnyNode, content: &Content, ctx: &str) -> bool {
        if self.is_cuckoo {
            return self.check_cuckoo_multiset(node, content, "C06", ctx);
        }
        let r = match self.reference(content) {
            Some(r) => r,
            None => {
                self.viol.push(v("C06", format!("{}/merge/reference-build-failed", self.kname), self.step,
                    format!("{}: the merge succeeded, but a fresh instance cannot hold the same {} elements", ctx, content.len())));
                return false;
            }
        };
        let (a, b) = (node.observe(&self.case.universe), r.observe(&self.case.universe));
        if a != b {
            let i = (0..a.len()).find(|&i| a[i] != b[i]).unwrap();
            let what = if i < self.case.universe.len() { format!("answer for key {}", self.case.universe[i]) } else { format!("aggregate #{}", i - self.case.universe.len()) };
            self.viol.push(v("C06", format!("{}/merge/state-mismatch", self.kname), self.step,
                format!("{}: {} is {}, a fresh instance fed the same {} elements sequentially gives {}", ctx, what, a[i], content.len(), b[i])));
            return false;
        }
        true
    }

    /// per-node invariants that hold at every step: C01 for filters, C02 for CMS
    fn check_node(&mut self, node: &AnyNode, content: &Content, ctx: &str) -> bool {
        match node {
            AnyNode::Filter(f) => {
                for (&k, _) in content.iter() {
                    if !f.query(k) {
                        self.viol.push(v("C01", format!("{}/false-negative/replica", self.kname), self.step, format!("{}: key {} was inserted or absorbed by a successful union, query false", ctx, k)));
                        return false;
                    }
                }
                true
            }
            AnyNode::Cms(c) => {
                let tot = total(content);
                for &x in &self.case.universe {
                    let t = content.get(&x).copied().unwrap_or(0);
                    let q = c.query_point(x);
                    if q < t {
                        self.viol.push(v("C02", "cms/underestimate".into(), self.step, format!("{}: query_point({}) = {} < true weight {}", ctx, x, q, t)));
                        return false;
                    }
                    if q > tot {
                        self.viol.push(v("C02", "cms/exceeds-total".into(), self.step, format!("{}: query_point({}) = {} > total weight {} of everything added", ctx, x, q, tot)));
                        return false;
                    }
                    if content.len() == 1 && t > 0 && q != t {
                        self.viol.push(v("C02", "cms/single-element-not-exact".into(), self.step, format!("{}: only {} was ever added (weight {}), query_point = {}", ctx, x, t, q)));
                        return false;
                    }
                }
                if c.is_empty() != (tot == 0) {
                    self.viol.push(v("C19", "cms/is_empty".into(), self.step, format!("{}: is_empty() = {} with total weight {}", ctx, c.is_empty(), tot)));
                    return false;
                }
                true
            }
            AnyNode::Hll(_) => true,
        }
    }

    fn body(&mut self) {
        let case = self.case;
        let n = case.nodes;
        let u = &case.universe;
        self.stats.sig(match &case.kind {
            NKind::Filter(FKind::Bloom { .. }) => 1,
            NKind::Filter(FKind::Cuckoo { .. }) => 2,
            NKind::Filter(FKind::Quotient { .. }) => 3,
            NKind::Filter(FKind::Set) => 4,
            NKind::Cms { ctr, .. } => 10 + *ctr as u64,
            NKind::Hll { b } => 20 + *b as u64,
        });
        if case.hasher.is_storm() {
            self.stats.fault("hash_storm");
        }
        if matches!(case.kind, NKind::Cms { .. }) && matches!(case.hasher.mode, HashMode::Buckets(1)) {
            self.stats.fault("row_collision");
        }
        if let NKind::Filter(k @ FKind::Cuckoo { .. }) = &case.kind {
            self.cls = derive_classes(k, case.hasher, u);
        }
        let cmax = case.kind.counter_max();
        let mut nodes: Vec<AnyNode> = (0..n).map(|i| AnyNode::build(&case.kind, case.hasher, case.rng_seed.wrapping_add(i as u64))).collect();
        let mut contents: Vec<Content> = vec![Content::new(); n];
        // everything ever ingested anywhere and not lost to a restart of the only holder is hard to
        // define under loss; convergence therefore uses the union / sum of what the nodes hold then
        let mut bag: BTreeMap<u32, Msg> = BTreeMap::new();
        let mut oldest_first: Vec<u32> = vec![];

        for (i, op) in case.ops.iter().enumerate() {
            self.step = i + 1;
            match op {
                NOp::Ingest { node, key, weight } => {
                    if *node >= n {
                        continue;
                    }
                    let w = (*weight).max(1);
                    if self.counting && matches!(case.kind, NKind::Cms { .. }) && total(&contents[*node]) + w > cmax {
                        self.stats.probe("skipped_overflow_guard");
                        continue;
                    }
                    let before = nodes[*node].observe(u);
                    let res = nodes[*node].ingest(*key, w);
                    self.stats.steps += 1;
                    match res {
                        Ok(ret) => {
                            self.stats.sig(1);
                            let e = contents[*node].entry(*key).or_insert(0);
                            if self.counting {
                                *e += w;
                            } else {
                                *e = 1;
                            }
                            if let AnyNode::Cms(c) = &nodes[*node] {
                                let q = c.query_point(*key);
                                if ret != q {
                                    self.viol.push(v("C02", "cms/add-return".into(), self.step, format!("add returned {}, query_point({}) immediately afterwards is {}", ret, key, q)));
                                    return;
                                }
                            }
                            // add_n with weight 0 is an add like any other: it returns the current
                            // estimate and changes nothing (every seventh ingest, on another key)
                            if (*key ^ self.step as u64) % 7 == 0 {
                                if let AnyNode::Cms(c) = &mut nodes[*node] {
                                    let k0 = u[(self.step + 1) % u.len()];
                                    let before0 = c.query_point(k0);
                                    let ret0 = c.add_n(k0, 0);
                                    let after0 = c.query_point(k0);
                                    self.stats.probe("zero_weight_add");
                                    if ret0 != after0 || after0 != before0 {
                                        self.viol.push(v("C02", "cms/add-return".into(), self.step, format!("add_n({}, 0) returned {}, query_point before / after is {} / {}", k0, ret0, before0, after0)));
                                        return;
                                    }
                                }
                            }
                        }
                        Err(()) => {
                            self.stats.sig(2);
                            self.stats.fault("full_insert");
                            if nodes[*node].observe(u) != before {
                                self.viol.push(v("C12", format!("{}/insert/err-changed-state", self.kname), self.step, format!("failed insert({}) changed the observable state of node {}", key, node)));
                                return;
                            }
                        }
                    }
                    let (nd, ct) = (&nodes[*node], contents[*node].clone());
                    if !self.check_node(nd, &ct, &format!("node {} after ingest({})", node, key)) {
                        return;
                    }
                }
                NOp::Remove { node, key } => {
                    if *node >= n || !self.is_cuckoo || contents[*node].get(key).copied().unwrap_or(0) == 0 {
                        continue;
                    }
                    let got = match &mut nodes[*node] {
                        AnyNode::Filter(f) => f.delete(*key),
                        _ => None,
                    };
                    self.stats.steps += 1;
                    self.stats.sig(7);
                    if got != Some(true) {
                        self.viol.push(v("C14", "cuckoo/delete/return-mismatch".into(), self.step, format!("node {}: delete({}) returned {:?} although the node holds the key", node, key, got)));
                        return;
                    }
                    self.stats.probe("node_with_holes");
                    let e = contents[*node].get_mut(key).unwrap();
                    *e -= 1;
                    if *e == 0 {
                        contents[*node].remove(key);
                    }
                    let ct = contents[*node].clone();
                    if !self.check_node(&nodes[*node], &ct, &format!("node {} after delete({})", node, key)) {
                        return;
                    }
                }
                NOp::Snapshot { node, id, json } => {
                    if *node >= n {
                        continue;
                    }
                    let mut state = nodes[*node].fork();
                    if *json {
                        if let AnyNode::Hll(h) = &state {
                            self.stats.fault("via_json_bytes");
                            let bytes = serde_json::to_vec(h).unwrap();
                            match serde_json::from_slice::<Hll>(&bytes) {
                                Ok(d) => {
                                    if d != *h {
                                        self.viol.push(v("C20", "hll/round-trip/not-equal".into(), self.step, "snapshot shipped through JSON differs from the sender".into()));
                                        return;
                                    }
                                    state = AnyNode::Hll(d);
                                }
                                Err(e) => {
                                    self.viol.push(v("C20", "hll/round-trip/rejected".into(), self.step, format!("snapshot shipped through JSON was rejected: {}", e)));
                                    return;
                                }
                            }
                        }
                    }
                    let obs = state.observe(u);
                    bag.insert(*id, Msg { state, content: contents[*node].clone(), obs, from: *node, delivered: 0 });
                    oldest_first.push(*id);
                    self.stats.sig(3);
                }
                NOp::Deliver { id, to, keep } => {
                    if *to >= n {
                        continue;
                    }
                    let mut msg = match bag.remove(id) {
                        Some(m) => m,
                        None => continue,
                    };
                    if oldest_first.first() != Some(id) {
                        self.stats.fault("net_reorder");
                    }
                    if msg.delivered > 0 {
                        self.stats.fault("net_duplicate");
                    }
                    msg.delivered += 1;
                    let guard_overflow = matches!(case.kind, NKind::Cms { .. }) && total(&contents[*to]) + total(&msg.content) > cmax;
                    if guard_overflow {
                        self.stats.probe("skipped_overflow_guard");
                    } else {
                        let before = nodes[*to].observe(u);
                        let res = nodes[*to].merge(&msg.state);
                        self.stats.steps += 1;
                        // the shipped snapshot answers exactly as when it was taken
                        if msg.state.observe(u) != msg.obs {
                            for p in ["C06", "C12"] {
                                self.viol.push(v(p, format!("{}/merge/operand-modified", self.kname), self.step, format!("snapshot {} of node {} answers differently after being merged into node {}", id, msg.from, to)));
                            }
                            return;
                        }
                        match res {
                            Ok(()) => {
                                self.stats.sig(4);
                                self.stats.probe("deliver_ok");
                                absorb(&mut contents[*to], &msg.content, self.counting);
                                let ct = contents[*to].clone();
                                let ctx = format!("node {} after merging snapshot {} of node {}", to, id, msg.from);
                                if !self.check_node(&nodes[*to], &ct, &ctx) || !self.check_equivalence(&nodes[*to], &ct, &ctx) {
                                    return;
                                }
                            }
                            Err(()) => {
                                self.stats.sig(5);
                                self.stats.fault("full_union");
                                if nodes[*to].observe(u) != before {
                                    self.viol.push(v("C12", format!("{}/union/err-changed-state", self.kname), self.step, format!("failed union of snapshot {} changed the observable state of node {}", id, to)));
                                    return;
                                }
                                let ct = contents[*to].clone();
                                if self.is_cuckoo && !self.check_cuckoo_multiset(&nodes[*to], &ct, "C12", "after a failed union") {
                                    return;
                                }
                                if !self.check_node(&nodes[*to], &ct, &format!("node {} after a failed union", to)) {
                                    return;
                                }
                            }
                        }
                    }
                    if *keep {
                        bag.insert(*id, msg);
                    } else {
                        oldest_first.retain(|x| x != id);
                    }
                }
                NOp::Drop { id } => {
                    if bag.remove(id).is_some() {
                        oldest_first.retain(|x| x != id);
                        self.stats.fault("net_drop");
                    }
                }
                NOp::Restart { node } => {
                    if *node >= n {
                        continue;
                    }
                    nodes[*node].clear();
                    contents[*node].clear();
                    self.stats.fault("node_restart");
                    self.stats.sig(6);
                    let fresh = AnyNode::build(&case.kind, case.hasher, 1);
                    if nodes[*node].observe(u) != fresh.observe(u) {
                        // S2 serves C01 / C02 / C06, so this C19-tagged deviation is filtered out; the run
                        // goes on, and what a restart that did not restart does to the node's later
                        // answers is judged by the oracle of the property being checked
                        self.viol.push(v("C19", format!("{}/clear/state-mismatch", self.kname), self.step, format!("node {} after clear() answers differently from a fresh instance", node)));
                    }
                }
                NOp::Partition { .. } => self.stats.fault("net_partition"),
                NOp::Heal => self.stats.probe("net_heal"),
                NOp::Blocked { .. } => self.stats.fault("net_partition_blocked_delivery"),
                NOp::Algebra { a, b, c } => {
                    if *a >= n || *b >= n || *c >= n || !case.kind.commutative() {
                        continue;
                    }
                    if matches!(case.kind, NKind::Cms { .. }) && 2 * (total(&contents[*a]) + total(&contents[*b]) + total(&contents[*c])) > cmax {
                        self.stats.probe("skipped_overflow_guard");
                        continue;
                    }
                    let un = |x: &AnyNode, y: &AnyNode| -> Option<AnyNode> {
                        let mut z = x.fork();
                        z.merge(y).ok()?;
                        Some(z)
                    };
                    let (na, nb, nc) = (&nodes[*a], &nodes[*b], &nodes[*c]);
                    self.stats.steps += 1;
                    // commutativity
                    if let (Some(ab), Some(ba)) = (un(na, nb), un(nb, na)) {
                        self.stats.probe("algebra_commutativity");
                        if ab.observe(u) != ba.observe(u) {
                            self.viol.push(v("C06", format!("{}/merge/not-commutative", self.kname), self.step, format!("a.union(b) and b.union(a) answer differently (nodes {} and {})", a, b)));
                            return;
                        }
                        // associativity
                        let left = un(&ab, nc);
                        let right = un(nb, nc).and_then(|bc| un(na, &bc));
                        if let (Some(l), Some(r)) = (left, right) {
                            self.stats.probe("algebra_associativity");
                            if l.observe(u) != r.observe(u) {
                                self.viol.push(v("C06", format!("{}/merge/not-associative", self.kname), self.step, format!("(a.b).c and a.(b.c) answer differently (nodes {}, {}, {})", a, b, c)));
                                return;
                            }
                        }
                        if case.kind.idempotent() {
                            if let Some(abb) = un(&ab, nb) {
                                self.stats.probe("algebra_idempotence");
                                if abb.observe(u) != ab.observe(u) {
                                    self.viol.push(v("C06", format!("{}/merge/not-idempotent", self.kname), self.step, format!("merging node {} a second time changed the result", b)));
                                    return;
                                }
                            }
                        }
                    } else {
                        self.stats.probe("algebra_skipped_full");
                    }
                    if case.kind.idempotent() {
                        if let Some(aa) = un(na, na) {
                            if aa.observe(u) != na.observe(u) {
                                self.viol.push(v("C06", format!("{}/merge/not-idempotent", self.kname), self.step, format!("merging node {} with a clone of itself changed it", a)));
                                return;
                            }
                        }
                    }
                }
                NOp::MergeMismatch { from, to, variant } => {
                    if *from >= n || *to >= n {
                        continue;
                    }
                    let other_kind = match (&case.kind, variant % 3) {
                        (NKind::Filter(FKind::Bloom { m, k }), 0) => NKind::Filter(FKind::Bloom { m: (m / 2).max(1), k: *k }),
                        (NKind::Filter(FKind::Bloom { m, k }), 1) => NKind::Filter(FKind::Bloom { m: m + 1, k: *k }),
                        (NKind::Filter(FKind::Bloom { m, k }), _) => NKind::Filter(FKind::Bloom { m: *m, k: k + 1 }),
                        (NKind::Filter(FKind::Quotient { q, r }), 0) if q + r < 64 => NKind::Filter(FKind::Quotient { q: q + 1, r: *r }),
                        (NKind::Filter(FKind::Quotient { q, r }), 1) if *q > 1 => NKind::Filter(FKind::Quotient { q: q - 1, r: *r }),
                        (NKind::Filter(FKind::Quotient { q, r }), _) => NKind::Filter(FKind::Quotient { q: *q, r: if *r > 1 { r - 1 } else { r + 1 } }),
                        (NKind::Filter(FKind::Cuckoo { bucketsize, n_buckets, l_fp }), 0) => NKind::Filter(FKind::Cuckoo { bucketsize: *bucketsize, n_buckets: n_buckets * 2, l_fp: *l_fp }),
                        (NKind::Filter(FKind::Cuckoo { bucketsize, n_buckets, l_fp }), 1) => NKind::Filter(FKind::Cuckoo { bucketsize: bucketsize + 1, n_buckets: *n_buckets, l_fp: *l_fp }),
                        (NKind::Filter(FKind::Cuckoo { bucketsize, n_buckets, l_fp }), _) => NKind::Filter(FKind::Cuckoo { bucketsize: *bucketsize, n_buckets: *n_buckets, l_fp: if *l_fp > 2 { l_fp - 1 } else { l_fp + 1 } }),
                        (NKind::Cms { w, d, ctr }, 0) => NKind::Cms { w: w + 1, d: *d, ctr: *ctr },
                        (NKind::Cms { w, d, ctr }, 1) => NKind::Cms { w: *w, d: d + 1, ctr: *ctr },
                        (NKind::Cms { w, d, ctr }, _) => NKind::Cms { w: (w / 2).max(1), d: *d, ctr: *ctr },
                        (NKind::Hll { b }, 0) => NKind::Hll { b: if *b < 18 { b + 1 } else { b - 1 } },
                        (NKind::Hll { b }, _) => NKind::Hll { b: if *b > 4 { b - 1 } else { b + 1 } },
                        _ => continue,
                    };
                    if other_kind == case.kind {
                        continue;
                    }
                    if matches!(case.kind, NKind::Cms { .. }) && total(&contents[*to]) + total(&contents[*from]) > cmax {
                        continue;
                    }
                    let mut odd = AnyNode::build(&other_kind, case.hasher, 7);
                    let mut absorbed = Content::new();
                    for (&k, &w) in contents[*from].iter() {
                        if odd.ingest(k, w.max(1)).is_ok() {
                            absorbed.insert(k, if self.counting { w } else { 1 });
                        }
                    }
                    self.stats.steps += 1;
                    let target = &mut nodes[*to];
                    match guarded(|| target.merge(&odd)) {
                        Caught::LibPanic(..) => self.stats.probe("mismatched_merge_panicked"),
                        Caught::Ok(Err(())) => self.stats.probe("mismatched_merge_full"),
                        Caught::Ok(Ok(())) => {
                            self.stats.probe("mismatched_merge_returned_ok");
                            absorb(&mut contents[*to], &absorbed, self.counting);
                            let ct = contents[*to].clone();
                            let ctx = format!("node {} after a merge with an operand of configuration {:?} returned Ok", to, other_kind);
                            let nd = nodes[*to].fork();
                            let _ = self.check_node(&nd, &ct, &ctx) && self.check_equivalence(&nd, &ct, &ctx);
                            // whatever was accepted: the bookkeeping of this node is no longer meaningful
                            return;
                        }
                    }
                }
                NOp::InstallOdd { from, variant } => {
                    if *from >= n {
                        continue;
                    }
                    let other_kind = match (&case.kind, variant % 2) {
                        (NKind::Filter(FKind::Bloom { m, k }), 0) => NKind::Filter(FKind::Bloom { m: m + 7, k: k + 1 }),
                        (NKind::Filter(FKind::Bloom { m, k }), _) => NKind::Filter(FKind::Bloom { m: (m / 2).max(1), k: *k }),
                        (NKind::Filter(FKind::Quotient { q, r }), _) => NKind::Filter(FKind::Quotient { q: if *q > 1 { q - 1 } else { q + 1 }, r: *r }),
                        (NKind::Filter(FKind::Cuckoo { bucketsize, n_buckets, l_fp }), _) => NKind::Filter(FKind::Cuckoo { bucketsize: bucketsize + 1, n_buckets: n_buckets * 2, l_fp: *l_fp }),
                        (NKind::Cms { w, d, ctr }, 0) => NKind::Cms { w: *d, d: *w, ctr: *ctr },
                        (NKind::Cms { w, d, ctr }, _) => NKind::Cms { w: w + 3, d: *d, ctr: *ctr },
                        (NKind::Hll { b }, _) => NKind::Hll { b: if *b > 4 { b - 1 } else { b + 1 } },
                        _ => continue,
                    };
                    // the scratch node also gets another hasher seed: everything has to be replaced
                    let mut h2 = case.hasher;
                    h2.seed = h2.seed.wrapping_add(1);
                    let mut scratch = AnyNode::build(&other_kind, h2, 99);
                    for (i, &k) in u.iter().enumerate().take(5) {
                        let _ = scratch.ingest(k, 1 + (i as u64 % 2));
                    }
                    self.stats.steps += 1;
                    if scratch.clone_from_other(&nodes[*from]) {
                        self.stats.probe("clone_from_installed");
                        let ct = contents[*from].clone();
                        let ctx = format!("a node of configuration {:?} after clone_from(node {})", other_kind, from);
                        let a = scratch.observe(u);
                        let b = nodes[*from].observe(u);
                        if a != b {
                            let i = (0..a.len()).find(|&i| a[i] != b[i]).unwrap_or(0);
                            let mut props = vec!["C19", "C06"];
                            props.push(if matches!(case.kind, NKind::Cms { .. }) { "C02" } else if matches!(case.kind, NKind::Hll { .. }) { "C17" } else { "C01" });
                            for p in props {
                                self.viol.push(v(p, format!("{}/clone_from/differs-from-source", self.kname), self.step, format!("{}: observation #{} is {}, the source gives {}", ctx, i, a[i], b[i])));
                            }
                            return;
                        }
                        if !self.check_node(&scratch, &ct, &ctx) || !self.check_equivalence(&scratch, &ct, &ctx) {
                            return;
                        }
                        // and it keeps behaving like the source: one more element into both
                        if let Some(&k) = u.first() {
                            let mut twin = nodes[*from].fork();
                            let total_ok = !matches!(case.kind, NKind::Cms { .. }) || total(&ct) + 1 <= cmax;
                            if total_ok {
                                let (r1, r2) = (scratch.ingest(k, 1), twin.ingest(k, 1));
                                if r1 != r2 || scratch.observe(u) != twin.observe(u) {
                                    for p in ["C19", "C06", "C02"] {
                                        self.viol.push(v(p, format!("{}/clone_from/diverges", self.kname), self.step, format!("{}: one more insert of {} behaves differently than on a clone() of the source", ctx, k)));
                                    }
                                    return;
                                }
                            }
                        }
                    }
                }
                NOp::Converge => {
                    self.stats.probe("convergence_phase");
                    if case.kind.idempotent() {
                        // two all-to-all rounds without faults
                        let mut all = Content::new();
                        for c in contents.iter() {
                            absorb(&mut all, c, false);
                        }
                        let mut failed = false;
                        for _round in 0..2 {
                            for i in 0..n {
                                for j in 0..n {
                                    if i != j {
                                        let snap = nodes[i].fork();
                                        if nodes[j].merge(&snap).is_err() {
                                            failed = true;
                                        } else {
                                            let ci = contents[i].clone();
                                            absorb(&mut contents[j], &ci, false);
                                        }
                                    }
                                }
                            }
                        }
                        self.stats.steps += 1;
                        if failed {
                            // a quotient filter too small for the union of everything: nothing to demand
                            self.stats.probe("convergence_blocked_by_full");
                        } else {
                            for j in 0..n {
                                let ctx = format!("node {} after the fault-free convergence rounds", j);
                                let nd = nodes[j].fork();
                                if contents[j] != all {
                                    self.viol.push(v("C06", format!("{}/merge/harness-content-mismatch", self.kname), self.step, "harness bookkeeping error".into()));
                                    return;
                                }
                                if !self.check_node(&nd, &all, &ctx) || !self.check_equivalence(&nd, &all, &ctx) {
                                    return;
                                }
                            }
                            self.stats.probe("converged");
                        }
                    } else {
                        // counting structures: exactly-once aggregation into a fresh collector
                        let mut sum = Content::new();
                        for c in contents.iter() {
                            absorb(&mut sum, c, true);
                        }
                        if matches!(case.kind, NKind::Cms { .. }) && total(&sum) > cmax {
                            self.stats.probe("skipped_overflow_guard");
                            continue;
                        }
                        let mut coll = AnyNode::build(&case.kind, case.hasher, case.rng_seed ^ 0xc011);
                        let mut failed = false;
                        for nd in nodes.iter() {
                            if coll.merge(nd).is_err() {
                                failed = true;
                                break;
                            }
                        }
                        self.stats.steps += 1;
                        if failed {
                            self.stats.probe("convergence_blocked_by_full");
                        } else {
                            let ctx = "fresh collector after merging every node exactly once";
                            if !self.check_node(&coll, &sum, ctx) || !self.check_equivalence(&coll, &sum, ctx) {
                                return;
                            }
                            self.stats.probe("converged");
                        }
                    }
                }
            }
            if !self.viol.is_empty() {
                return;
            }
        }
    }
}

// ---------------------------------------------------------------------------
// generation: the network model lives here; its decisions are written into the op list

fn gen_nkind(g: &mut Sm, prop: &str) -> NKind {
    let which = match prop {
        "C02" => 3,
        "C01" => *g.pick(&[0u8, 1, 2, 2, 1]),
        _ => g.below(5) as u8,
    };
    let realistic = g.chance(1, 12);
    match which {
        0 | 1 | 2 => NKind::Filter(gen_kind(g, which, realistic)),
        3 => {
            let (w, d) = if g.chance(1, 60) {
                // more columns than a 16-bit index can address
                (*g.pick(&[65_535usize, 65_536, 65_537, 70_001]), g.range(1, 3) as usize)
            } else if g.chance(1, 8) {
                (g.range(16, 300) as usize, g.range(1, 8) as usize)
            } else {
                let w = g.range(1, 6) as usize;
                let mut d = g.range(1, 6) as usize;
                if d == w && g.chance(7, 10) {
                    d = 1 + (d % 6);
                }
                (w, d)
            };
            NKind::Cms { w, d, ctr: g.below(5) as u8 }
        }
        _ => NKind::Hll { b: if g.chance(1, 4) { g.range(4, 18) as usize } else { g.range(4, 8) as usize } },
    }
}

fn gen_nhasher(g: &mut Sm, kind: &NKind) -> SimHasher {
    let seed = g.u64();
    let mode = match g.below(100) {
        0..=19 => HashMode::Identity,
        20..=29 => HashMode::Buckets(if matches!(kind, NKind::Cms { .. }) && g.chance(1, 2) { 1 } else { g.range(1, 8) as u32 }),
        30..=39 => {
            let mut mask = 0u64;
            for _ in 0..g.range(1, 8) {
                mask |= 1u64 << g.below(64);
            }
            HashMode::Mask(mask)
        }
        40..=54 => HashMode::Sip,
        _ => HashMode::Mix,
    };
    SimHasher::new(mode, seed)
}

impl Scenario for S2 {
    type Case = ReplicaCase;
    const NAME: &'static str = "S2-replicas";
    const RULE: &'static str = "2..5 nodes of one structure kind (bloom / quotient / cuckoo / count-min over u8..usize / hyperloglog) and hasher; the generator's network model decides ingests, snapshots, deliveries (any in-flight message next: reordering; keep a copy: duplication), drops, partitions with blocked deliveries, restarts and algebraic probes, and ends with a fault-free convergence phase; every delivery is checked against a fresh instance fed the receiver's logical content";

    fn generate(seed: u64, _run: u64, prop: &'static str, _tier: Tier) -> ReplicaCase {
        let mut g = Sm::new(seed);
        let kind = gen_nkind(&mut g, prop);
        let hasher = gen_nhasher(&mut g, &kind);
        let nodes = g.range(2, 5) as usize;
        let nu = g.range(3, 40) as usize;
        let universe = match &kind {
            NKind::Filter(fk) => gen_universe(&mut g, fk, &hasher, nu),
            NKind::Hll { b } => {
                // under Identity the key is the hash: place register (low b bits) and rank (rest) directly
                let mut u = vec![];
                while u.len() < nu {
                    let k = if hasher.mode == HashMode::Identity {
                        let reg = g.below((1u64 << b).min(6));
                        let rest = match g.below(4) {
                            0 => 0,
                            1 => 1u64 << g.below(64 - *b as u64),
                            _ => g.u64() >> g.below(64),
                        };
                        (rest << b) | reg
                    } else {
                        g.u64() >> g.below(60)
                    };
                    if !u.contains(&k) {
                        u.push(k);
                    }
                }
                u
            }
            NKind::Cms { .. } => {
                let mut u = vec![];
                while u.len() < nu {
                    let k = if g.chance(1, 2) { g.below(4 * nu as u64) } else { g.u64() };
                    if !u.contains(&k) {
                        u.push(k);
                    }
                }
                u
            }
        };
        let nu = universe.len();
        let probes = (nu / 5).max(1).min(nu - 1); // the last few keys are never ingested
        let live = nu - probes;
        let cmax = kind.counter_max();
        let counting = matches!(kind, NKind::Cms { .. }) || matches!(kind, NKind::Filter(FKind::Cuckoo { .. }));
        let steps = g.range(5, 90) as usize;
        let mut ops: Vec<NOp> = vec![];
        let mut tot = vec![0u64; nodes]; // upper bound of every node's total weight (CMS overflow guard)
        let mut inflight: Vec<(u32, usize, u64)> = vec![];
        let mut next_id = 0u32;
        let mut part: Option<u32> = None;
        let p_dup = *g.pick(&[0u64, 10, 30]);
        let p_restart = *g.pick(&[0u64, 2, 5]);
        let p_part = *g.pick(&[0u64, 3, 8]);
        let maxw = if cmax <= 255 { 3 } else if cmax <= 65535 { 50 } else { 1000 };
        for _ in 0..steps {
            let x = g.below(100);
            if x < 8 && matches!(kind, NKind::Filter(FKind::Cuckoo { .. })) {
                ops.push(NOp::Remove { node: g.usize(nodes), key: universe[g.usize(live.max(1))] });
            } else if x < 45 {
                let node = g.usize(nodes);
                let key = universe[g.usize(live.max(1))];
                let weight = if matches!(kind, NKind::Cms { .. }) && g.chance(1, 2) { g.range(1, maxw) } else { 1 };
                if matches!(kind, NKind::Cms { .. }) && tot[node] + weight > cmax {
                    continue;
                }
                tot[node] += weight;
                ops.push(NOp::Ingest { node, key, weight });
            } else if x < 60 {
                let node = g.usize(nodes);
                let json = matches!(kind, NKind::Hll { .. }) && g.chance(1, 2);
                ops.push(NOp::Snapshot { node, id: next_id, json });
                inflight.push((next_id, node, tot[node]));
                next_id += 1;
            } else if x < 82 {
                if inflight.is_empty() {
                    continue;
                }
                let mi = g.usize(inflight.len());
                let (id, from, mt) = inflight[mi];
                let to = g.usize(nodes);
                if to == from && g.chance(3, 4) {
                    continue;
                }
                if let Some(mask) = part {
                    if (mask >> from) & 1 != (mask >> to) & 1 {
                        ops.push(NOp::Blocked { id, to });
                        continue;
                    }
                }
                if matches!(kind, NKind::Cms { .. }) && tot[to] + mt > cmax {
                    ops.push(NOp::Drop { id });
                    inflight.remove(mi);
                    continue;
                }
                let keep = g.below(100) < p_dup;
                tot[to] = if counting { tot[to] + mt } else { tot[to].max(mt) };
                ops.push(NOp::Deliver { id, to, keep });
                if !keep {
                    inflight.remove(mi);
                }
            } else if x < 87 {
                if inflight.is_empty() {
                    continue;
                }
                let mi = g.usize(inflight.len());
                ops.push(NOp::Drop { id: inflight[mi].0 });
                inflight.remove(mi);
            } else if x < 87 + p_restart {
                let node = g.usize(nodes);
                tot[node] = 0;
                ops.push(NOp::Restart { node });
            } else if x < 87 + p_restart + p_part {
                if part.is_some() {
                    part = None;
                    ops.push(NOp::Heal);
                } else {
                    let mask = g.range(1, (1u64 << nodes) - 2) as u32;
                    part = Some(mask);
                    ops.push(NOp::Partition { mask });
                }
            } else if x < 97 {
                ops.push(NOp::Algebra { a: g.usize(nodes), b: g.usize(nodes), c: g.usize(nodes) });
            } else if x < 99 && g.chance(1, 2) {
                ops.push(NOp::InstallOdd { from: g.usize(nodes), variant: g.below(2) as u8 });
            } else if x < 98 {
                ops.push(NOp::MergeMismatch { from: g.usize(nodes), to: g.usize(nodes), variant: g.below(3) as u8 });
            }
        }
        if part.is_some() {
            ops.push(NOp::Heal);
        }
        ops.push(NOp::Converge);
        ReplicaCase { kind, hasher, nodes, rng_seed: g.u64(), universe, ops }
    }

    fn execute(case: &ReplicaCase, prop: &'static str) -> Outcome {
        let counting = matches!(case.kind, NKind::Cms { .. }) || matches!(case.kind, NKind::Filter(FKind::Cuckoo { .. }));
        let mut ex = Exec {
            case,
            kname: case.kind.name(),
            stats: RunStats::default(),
            viol: vec![],
            step: 0,
            counting,
            is_cuckoo: matches!(case.kind, NKind::Filter(FKind::Cuckoo { .. })),
            cls: None,
        };
        let r = guarded(|| ex.body());
        if let Caught::LibPanic(loc, msg) = r {
            let class = format!("{}/panic/{}", ex.kname, panic_site(&loc));
            ex.viol.push(Violation { property: prop, class, step: ex.step, detail: format!("panic at {}: {}", loc, msg) });
        }
        Outcome { stats: ex.stats, violations: ex.viol.into_iter().filter(|x| x.property == prop).collect() }
    }

    fn shrink(case: &ReplicaCase) -> Vec<ReplicaCase> {
        let mut out = vec![];
        for ops in shrink_vec(&case.ops).into_iter().take(400) {
            let mut c = case.clone();
            c.ops = ops;
            out.push(c);
        }
        if case.nodes > 2 {
            let mut c = case.clone();
            c.nodes -= 1;
            out.push(c);
        }
        // weights to 1
        let unit: Vec<NOp> = case.ops.iter().map(|o| match o {
            NOp::Ingest { node, key, .. } => NOp::Ingest { node: *node, key: *key, weight: 1 },
            x => x.clone(),
        }).collect();
        if serde_json::to_string(&unit).ok() != serde_json::to_string(&case.ops).ok() {
            let mut c = case.clone();
            c.ops = unit;
            out.push(c);
        }
        if case.universe.len() > 2 {
            for u in shrink_vec(&case.universe).into_iter().take(60) {
                if u.len() >= 1 {
                    let mut c = case.clone();
                    c.universe = u;
                    out.push(c);
                }
            }
        }
        out
    }

    fn describe(case: &ReplicaCase) -> Value {
        json!({"kind": case.kind, "hasher": case.hasher, "nodes": case.nodes, "universe_size": case.universe.len(),
               "n_ops": case.ops.len(), "first_ops": case.ops.iter().take(20).collect::<Vec<_>>()})
    }
}
