//! S2h — HyperLogLog behind an at-least-once stream transport that reorders and duplicates adds (C17).
use crate::anyn::Hll;
use crate::framework::*;
use crate::hasher::{HashMode, SimHasher};
use crate::rng::Sm;
use crate::s1_filters::shrink_vec;
use serde::{Deserialize, Serialize};
use serde_json::{json, Value};
use std::hash::BuildHasher;

#[derive(Clone, Debug, Serialize, Deserialize, PartialEq)]
pub enum Item {
    /// delivered through add_hashed
    Hash(u64),
    /// delivered through add (the injected hasher decides the hash)
    Key(u64),
}

#[derive(Clone, Debug, Serialize, Deserialize)]
pub struct HllCase {
    pub b: usize,
    pub hasher: SimHasher,
    pub items: Vec<Item>,
    /// per node: the order (with repetitions) in which the transport delivers item indices;
    /// every node receives every item at least once
    pub deliveries: Vec<Vec<u32>>,
    /// (node, delivery position, kind): something that must not change the registers happens before
    /// that delivery. 0: merge with a sketch of another hasher (rejected, panics); 1: merge with a
    /// sketch of another precision (rejected); 2: merge with an empty sketch; 3: merge with a clone
    /// of itself; 4: a clone is taken, mutated and dropped
    #[serde(default)]
    pub disturb: Vec<(u32, u32, u8)>,
}

pub struct S2h;

fn v(class: &str, step: usize, detail: String) -> Violation {
    Violation { property: "C17", class: class.to_string(), step, detail }
}

/// the statement's register rule, written out
pub fn model_update(regs: &mut [u8], b: usize, h: u64) -> usize {
    let j = if b == 64 { h } else { h & ((1u64 << b) - 1) } as usize;
    let rest_bits = 64 - b;
    let w = h >> b; // the remaining 64-b bits, right aligned
    // 1-based position of the first set bit counted from the most significant of the rest_bits bits
    let mut p = (rest_bits + 1) as u8;
    for pos in 1..=rest_bits {
        if (w >> (rest_bits - pos)) & 1 == 1 {
            p = pos as u8;
            break;
        }
    }
    if p > regs[j] {
        regs[j] = p;
    }
    j
}

pub fn boundary_hash(g: &mut Sm, b: usize) -> u64 {
    match g.below(12) {
        0 => 0,
        1 => u64::MAX,
        2 => 1u64 << g.below(64),
        3 => (1u64 << b) - 1,                       // low b bits only
        4 => g.below(1u64 << b),                    // rest all zero: rank 64-b+1
        5 => !((1u64 << b) - 1) | g.below(1u64 << b), // rest all ones: rank 1
        6 => (1u64 << g.range(1, 63)) - 1,
        7 => (1u64 << b) | g.below(1u64 << b),      // lowest rest bit: rank 64-b
        8 => (1u64 << 63) | g.below(1u64 << b),
        9 => g.u64() >> g.below(64),
        _ => g.u64(),
    }
}

impl Scenario for S2h {
    type Case = HllCase;
    const NAME: &'static str = "S2h-hll-stream-transport";
    const RULE: &'static str = "precision 4..18; a multiset of hashes (boundary catalogue: 0, u64::MAX, single-bit words, low-b-bits-only, rest-all-ones, (1<<j)-1, mixed with random words) and keys; 2..4 nodes receive the same items in different orders and multiplicities (at-least-once transport) through add_hashed / add; registers compared with the rule of the statement";

    fn generate(seed: u64, run: u64, _prop: &'static str, _tier: Tier) -> HllCase {
        let mut g = Sm::new(seed);
        let b = if g.chance(1, 2) { 4 + (run as usize % 15) } else { g.range(4, 8) as usize };
        let mode = match g.below(4) {
            0 => HashMode::Identity,
            1 => HashMode::Sip,
            2 => HashMode::Mask(g.u64() | g.u64()),
            _ => HashMode::Mix,
        };
        let hasher = SimHasher::new(mode, g.u64());
        let n = match g.below(4) {
            0 => g.range(0, 4),
            1 | 2 => g.range(1, 60),
            _ => g.range(20, 600),
        } as usize;
        let mut items = vec![];
        for _ in 0..n {
            let h = boundary_hash(&mut g, b);
            items.push(if g.chance(2, 3) { Item::Hash(h) } else { Item::Key(if hasher.mode == HashMode::Identity { h } else { g.below(500) }) });
        }
        let nodes = g.range(2, 4) as usize;
        let mut deliveries = vec![];
        for node in 0..nodes {
            let mut d: Vec<u32> = (0..n as u32).collect();
            if node > 0 || g.chance(1, 2) {
                match g.below(3) {
                    0 => d.reverse(),
                    _ => g.shuffle(&mut d),
                }
            }
            // duplicates
            let dups = if n == 0 { 0 } else { g.below(1 + n as u64) };
            for _ in 0..dups {
                let x = d[g.usize(d.len())];
                let at = g.usize(d.len() + 1);
                d.insert(at, x);
            }
            deliveries.push(d);
        }
        let mut disturb = vec![];
        if g.chance(1, 3) {
            for _ in 0..g.range(1, 4) {
                let node = g.usize(nodes);
                disturb.push((node as u32, g.below(deliveries[node].len() as u64 + 1) as u32, g.below(5) as u8));
            }
        }
        HllCase { b, hasher, items, deliveries, disturb }
    }

    fn execute(case: &HllCase, prop: &'static str) -> Outcome {
        let mut stats = RunStats::default();
        let mut viol: Vec<Violation> = vec![];
        let mut step = 0usize;
        stats.sig(case.b as u64);
        let r = guarded(|| {
            let b = case.b;
            let m = 1usize << b;
            let hash_of = |it: &Item| -> u64 {
                match it {
                    Item::Hash(h) => *h,
                    Item::Key(k) => case.hasher.hash_one(k),
                }
            };
            let mut model = vec![0u8; m];
            for it in &case.items {
                model_update(&mut model, b, hash_of(it));
            }
            let mut first: Option<Hll> = None;
            for (ni, d) in case.deliveries.iter().enumerate() {
                let mut h = Hll::with_hash(b, case.hasher);
                let mut inc = vec![0u8; m];
                let mut seen = vec![false; case.items.len()];
                let identity = d.iter().enumerate().all(|(i, &x)| i as u32 == x);
                if !identity {
                    stats.fault("net_reorder");
                }
                for (pos, &ix) in d.iter().enumerate() {
                    step += 1;
                    for &(_, _, kind) in case.disturb.iter().filter(|t| t.0 as usize == ni && t.1 as usize == pos) {
                        let what = match kind {
                            0 | 1 => {
                                let mut h2 = case.hasher;
                                h2.seed = h2.seed.wrapping_add(1);
                                let mut other = if kind == 0 { Hll::with_hash(b, h2) } else { Hll::with_hash(if b > 4 { b - 1 } else { b + 1 }, case.hasher) };
                                for x in 0..40u64 {
                                    other.add_hashed(crate::rng::mix2(x, 0x5eed) | (x & 1)); // all ranks, all registers of small sketches
                                }
                                match guarded(|| h.merge(&other)) {
                                    Caught::LibPanic(..) => stats.fault("rejected_merge"),
                                    _ => stats.probe("mismatched_merge_returned"),
                                }
                                if kind == 0 { "a rejected merge with a sketch of another hasher" } else { "a rejected merge with a sketch of another precision" }
                            }
                            2 => {
                                h.merge(&Hll::with_hash(b, case.hasher));
                                "a merge with an empty sketch"
                            }
                            3 => {
                                let c = h.clone();
                                h.merge(&c);
                                "a merge with a clone of itself"
                            }
                            _ => {
                                let mut c = h.clone();
                                c.add_hashed(u64::MAX);
                                c.add_hashed(0);
                                c.clear();
                                "mutating and clearing a clone"
                            }
                        };
                        if h.registers().len() != m {
                            viol.push(v("hll/registers-changed-without-add", step, format!("b = {}: {} left {} registers instead of {}", b, what, h.registers().len(), m)));
                            return;
                        }
                        if h.registers() != &inc[..] {
                            let j = (0..m).find(|&j| h.registers()[j] != inc[j]).unwrap();
                            viol.push(v("hll/registers-changed-without-add", step, format!("b = {}: {} changed register {} from {} to {}", b, what, j, inc[j], h.registers()[j])));
                            return;
                        }
                    }
                    let it = match case.items.get(ix as usize) {
                        Some(it) => it,
                        None => continue,
                    };
                    if seen[ix as usize] {
                        stats.fault("net_duplicate");
                    }
                    seen[ix as usize] = true;
                    let hv = hash_of(it);
                    match it {
                        Item::Hash(x) => h.add_hashed(*x),
                        Item::Key(k) => {
                            h.add(k);
                            stats.probe("via_add");
                        }
                    }
                    stats.steps += 1;
                    let j = model_update(&mut inc, b, hv);
                    if hv >> b == 0 {
                        stats.probe("rest_all_zero");
                    }
                    if h.registers().len() != m {
                        viol.push(v("hll/register-rule", step, format!("b = {}: the sketch holds {} registers instead of 2^b = {}", b, h.registers().len(), m)));
                        return;
                    }
                    if h.registers()[j] != inc[j] {
                        viol.push(v("hll/register-rule", step, format!("b = {}: after adding hash {:#018x} register {} holds {}, the statement's rule gives {}", b, hv, j, h.registers()[j], inc[j])));
                        return;
                    }
                }
                // nodes that have seen every item must agree with the model of the whole set
                if seen.iter().all(|s| *s) {
                    if h.registers() != &model[..] {
                        let j = (0..m).find(|&j| h.registers()[j] != model[j]).unwrap();
                        viol.push(v("hll/registers-depend-on-order-or-repetition", step, format!("node {}: register {} holds {}, the set of distinct hashes determines {}", ni, j, h.registers()[j], model[j])));
                        return;
                    }
                    match &first {
                        None => first = Some(h.clone()),
                        Some(f) => {
                            if f.registers() != h.registers() || f.count() != h.count() || *f != h {
                                viol.push(v("hll/nodes-disagree", step, format!("node 0 and node {} received the same multiset of adds in different orders but differ (count {} vs {})", ni, f.count(), h.count())));
                                return;
                            }
                        }
                    }
                }
                stats.sig(d.len() as u64);
                stats.sig(h.count() as u64);
                if h.is_empty() != model_is_empty(&inc) {
                    viol.push(Violation { property: "C19", class: "hll/is_empty".into(), step, detail: format!("is_empty() = {} but registers are {}", h.is_empty(), if model_is_empty(&inc) { "all zero" } else { "not all zero" }) });
                    return;
                }
                // state transfer: a sketch of another precision that already holds something is overwritten
                // with clone_from and must then be this sketch, also for what is added later
                {
                    let ob = if b > 4 { b - 1 } else { b + 1 };
                    let mut dst = Hll::with_hash(ob, case.hasher);
                    dst.add_hashed(0x1234_5678_9abc_def0);
                    dst.clone_from(&h);
                    let mut twin = h.clone();
                    let probe = 0xfeed_f00d_dead_beefu64 ^ (ni as u64);
                    dst.add_hashed(probe);
                    twin.add_hashed(probe);
                    if dst.b() != h.b() || dst.registers() != twin.registers() || dst != twin || dst.count() != twin.count() {
                        viol.push(v("hll/clone_from/differs-from-source", step, format!("a sketch of precision {} overwritten with clone_from(sketch of precision {}) reports b = {} / differs after one more add", ob, b, dst.b())));
                        return;
                    }
                }
                // reconstruction
                let rec = Hll::with_registers_and_hash(b, h.registers().to_vec(), case.hasher);
                if rec != h || rec.count() != h.count() {
                    viol.push(v("hll/reconstruct-not-equal", step, "with_registers_and_hash(b, registers().to_vec(), hasher) is not equal to the sketch".into()));
                    return;
                }
            }
            // twin: add(x) against add_hashed(hash_one(x))
            let mut a = Hll::with_hash(b, case.hasher);
            let mut t = Hll::with_hash(b, case.hasher);
            for it in &case.items {
                if let Item::Key(k) = it {
                    a.add(k);
                    t.add_hashed(case.hasher.hash_one(k));
                }
            }
            if a != t {
                viol.push(v("hll/add-is-not-add-hashed-of-hash-one", step, "add(x) and add_hashed(buildhasher.hash_one(x)) leave different registers".into()));
            }
        });
        if let Caught::LibPanic(loc, msg) = r {
            viol.push(v(&format!("hll/panic/{}", panic_site(&loc)), step, format!("panic at {}: {}", loc, msg)));
        }
        Outcome { stats, violations: viol.into_iter().filter(|x| x.property == prop).collect() }
    }

    fn shrink(case: &HllCase) -> Vec<HllCase> {
        let mut out = vec![];
        // drop items (re-indexing the deliveries)
        let n = case.items.len();
        if n > 0 {
            let idx: Vec<u32> = (0..n as u32).collect();
            for keep in shrink_vec(&idx).into_iter().take(200) {
                let mut c = case.clone();
                c.items = keep.iter().map(|&i| case.items[i as usize].clone()).collect();
                let map: std::collections::HashMap<u32, u32> = keep.iter().enumerate().map(|(new, &old)| (old, new as u32)).collect();
                c.deliveries = case.deliveries.iter().map(|d| d.iter().filter_map(|x| map.get(x).copied()).collect()).collect();
                for t in c.disturb.iter_mut() {
                    t.1 = t.1.min(c.deliveries.get(t.0 as usize).map(|d| d.len().saturating_sub(1)).unwrap_or(0) as u32);
                }
                out.push(c);
            }
        }
        if case.deliveries.len() > 1 {
            for i in 0..case.deliveries.len() {
                let mut c = case.clone();
                c.deliveries.remove(i);
                c.disturb.retain(|t| t.0 as usize != i);
                for t in c.disturb.iter_mut() {
                    if t.0 as usize > i {
                        t.0 -= 1;
                    }
                }
                out.push(c);
            }
        }
        // remove duplicates from a delivery
        for (i, d) in case.deliveries.iter().enumerate() {
            let mut seen = std::collections::HashSet::new();
            let dedup: Vec<u32> = d.iter().cloned().filter(|x| seen.insert(*x)).collect();
            if dedup.len() < d.len() {
                let mut c = case.clone();
                c.deliveries[i] = dedup;
                out.push(c);
            }
        }
        if case.b > 4 {
            let mut c = case.clone();
            c.b = 4;
            out.push(c);
        }
        for i in 0..case.disturb.len() {
            let mut c = case.clone();
            c.disturb.remove(i);
            out.push(c);
        }
        out
    }

    fn describe(case: &HllCase) -> Value {
        json!({"b": case.b, "hasher": case.hasher, "n_items": case.items.len(), "first_items": case.items.iter().take(12).collect::<Vec<_>>(),
               "disturb": case.disturb, "deliveries": case.deliveries.iter().map(|d| d.iter().take(16).cloned().collect::<Vec<u32>>()).collect::<Vec<_>>()})
    }
}

fn model_is_empty(regs: &[u8]) -> bool {
    regs.iter().all(|&r| r == 0)
}
