mod alloc;
mod anyf;
mod framework;
mod hasher;
mod rng;
mod anyn;
mod s1_filters;
mod s1l_bigfilters;
mod s2_replicas;
mod s2h_hll;
mod s3_reservoir;
mod s4_digest;
mod s5_topk;
mod s6_memory;
mod life;
mod s7_lifecycle;
mod s8_storage;
mod s9_entrypoints;

use framework::*;

#[global_allocator]
static GLOBAL: alloc::Counting = alloc::Counting;

fn usage() -> ! {
    eprintln!("usage: pdsim <C01..C20> [--tier quick|thorough] [--scale F] [--workers N]\n       pdsim replay <file>\n       pdsim selftest-determinism");
    std::process::exit(2)
}

fn verif_dir() -> String {
    std::env::var("VERIF_DIR").unwrap_or_else(|_| "/verif".into())
}

fn prop_static(p: &str) -> &'static str {
    const ALL: [&str; 20] = ["C01", "C02", "C03", "C04", "C05", "C06", "C07", "C08", "C09", "C10", "C11", "C12", "C13", "C14", "C15", "C16", "C17", "C18", "C19", "C20"];
    ALL.iter().find(|x| **x == p).copied().unwrap_or_else(|| usage())
}

fn level_of(prop: &str) -> &'static str {
    match prop {
        "C12" | "C20" => "fault_enumeration",
        _ => "exploration",
    }
}

/// What each check runs. `k` scales the run counts (1 = quick).
fn plan(ctx: &mut CheckCtx, k: f64) {
    let n = |base: u64| ((base as f64) * k) as u64;
    match ctx.prop {
        "C01" => {
            ctx.run::<s1_filters::S1>(n(300_000));
            ctx.run::<s2_replicas::S2>(n(50_000));
            ctx.run::<s1l_bigfilters::S1L>(n(600));
            ctx.run::<s9_entrypoints::S9>(n(20_000));
        }
        "C02" => {
            ctx.required_probes = vec!["row_collision", "net_reorder", "net_duplicate", "node_restart", "converged"];
            ctx.run::<s2_replicas::S2>(n(100_000));
            ctx.run::<s9_entrypoints::S9>(n(10_000));
        }
        "C06" => {
            ctx.required_probes = vec!["net_reorder", "net_duplicate", "net_drop", "net_partition", "net_partition_blocked_delivery", "node_restart", "full_union", "converged", "algebra_commutativity", "algebra_associativity", "algebra_idempotence", "via_json_bytes"];
            ctx.run::<s2_replicas::S2>(n(200_000));
            ctx.run::<s1l_bigfilters::S1L>(n(600));
        }
        "C12" => {
            ctx.run::<s1_filters::S1>(n(200_000));
            ctx.run::<s1l_bigfilters::S1L>(n(600));
        }
        "C13" => {
            ctx.required_probes = vec!["cluster_wrap", "cluster_ge3_runs", "insert_head_of_run", "insert_middle_of_run", "insert_tail_of_run", "table_full", "complete_fingerprint_universe"];
            ctx.run::<s1_filters::S1>(n(300_000));
            ctx.run::<s1l_bigfilters::S1L>(n(600));
            ctx.run::<s9_entrypoints::S9>(n(5_000));
        }
        "C14" => {
            ctx.run::<s1_filters::S1>(n(150_000));
            ctx.run::<s1l_bigfilters::S1L>(n(600));
            ctx.run::<s9_entrypoints::S9>(n(5_000));
        }
        "C04" => {
            ctx.run::<s4_digest::S4>(n(6_000));
        }
        "C15" => {
            ctx.required_probes = vec!["fused_centroid_at_tail", "n_lt_delta"];
            ctx.run::<s4_digest::S4>(n(8_000));
        }
        "C16" => {
            ctx.run::<s4_digest::S4>(n(12_000));
        }
        "C09" => {
            ctx.required_probes = vec!["prune_tick_adjacent", "prune_tick", "count_equals_window_at_tick", "more_than_65536_windows"];
            ctx.run::<s5_topk::S5a>(n(20_000));
        }
        "C10" => {
            ctx.required_probes = vec!["inflated_newcomer_while_heap_has_room", "collision_free_prefix", "prefix_with_sketch_error", "count_passes_65536"];
            ctx.run::<s5_topk::S5b>(n(60_000));
            ctx.run::<s9_entrypoints::S9>(n(10_000));
        }
        "C11" => {
            ctx.required_probes = vec!["measurements", "growth_comparisons", "node_restart", "full_insert"];
            ctx.assumptions.push("bound = F * documented bytes + 512 B with F = 1.5 for the bit-packed tables (Bloom, Cuckoo, Quotient, CMS, HLL) and 4 for the Vec / HashMap / BTreeSet backed ones; documented bytes include 8 bytes per hash function / sketch row for the precomputed shift table".into());
            ctx.run::<s6_memory::S6>(n(360));
        }
        "C19" => {
            ctx.required_probes = vec!["rng_stream_aligned_at_nonzero_position", "fork", "node_restart", "full_insert"];
            ctx.run::<s7_lifecycle::S7>(n(90_000));
        }
        "C20" => {
            ctx.required_probes = vec!["accepted", "rejected", "round_trip_ok", "store_truncate", "store_bitflip", "store_torn", "store_field_drop", "store_field_dup", "store_field_range", "store_field_retype"];
            ctx.run::<s8_storage::S8>(n(900));
        }
        "C17" => {
            ctx.required_probes = vec!["net_reorder", "net_duplicate", "via_add", "rest_all_zero"];
            ctx.run::<s2h_hll::S2h>(n(100_000));
            ctx.run::<s9_entrypoints::S9>(n(10_000));
        }
        "C05" => {
            // one evaluation = one (k, n) cell = a batch of sampler runs; the grid is fixed per tier
            let cells = s3_reservoir::grid_len(ctx.tier);
            ctx.required_probes = vec!["cell_ends_in_reservoir_phase", "cell_ends_at_switch", "cell_ends_in_gap_phase", "cell_fed_through_extend"];
            ctx.assumptions.push("statistical acceptance at z = 6 (regions) / 6.5 (single positions) against the binomial standard error, plus the allowance (1+ln(n/4k))/k for n > 4k+1; the default VERIF_SEED fixes the batch, other seeds have a false-alarm probability below 1e-5 per batch".into());
            ctx.run::<s3_reservoir::S3b>(cells as u64);
        }
        "C18" => {
            ctx.required_probes = vec!["phase_fill", "phase_reservoir", "phase_gap", "boundary_fill_to_reservoir", "boundary_reservoir_to_gap", "via_extend"];
            ctx.run::<s3_reservoir::S3a>(n(400_000));
        }
        _ => {
            eprintln!("HARNESS ERROR: property {} has no check (not applicable or not built)", ctx.prop);
            std::process::exit(2);
        }
    }
}

struct ScenEntry {
    name: &'static str,
    run_one: fn(u64, u64, &'static str, Tier) -> usize,
    mk_abort_replay: fn(&str, &'static str, u64, u64, u64, Tier, &str) -> (String, serde_json::Value),
}

fn entry<S: Scenario>() -> ScenEntry {
    ScenEntry { name: S::NAME, run_one: run_one::<S>, mk_abort_replay: mk_abort_replay::<S> }
}

fn scenarios() -> Vec<ScenEntry> {
    vec![
        entry::<s1_filters::S1>(),
        entry::<s1l_bigfilters::S1L>(),
        entry::<s2_replicas::S2>(),
        entry::<s2h_hll::S2h>(),
        entry::<s3_reservoir::S3a>(),
        entry::<s3_reservoir::S3b>(),
        entry::<s4_digest::S4>(),
        entry::<s5_topk::S5a>(),
        entry::<s5_topk::S5b>(),
        entry::<s6_memory::S6>(),
        entry::<s7_lifecycle::S7>(),
        entry::<s8_storage::S8>(),
        entry::<s9_entrypoints::S9>(),
    ]
}

/// Runs `args` in a child process of this executable. Returns the child's exit code, or None if it
/// was killed by a signal (abort on allocation failure, stack overflow, ...).
fn spawn_self(args: &[String], journal: Option<&str>) -> Option<i32> {
    let exe = std::env::current_exe().expect("current_exe");
    let mut c = std::process::Command::new(exe);
    c.args(args).env("PDSIM_CHILD", "1");
    if let Some(j) = journal {
        c.env("PDSIM_JOURNAL", j);
    }
    match c.status() {
        Ok(st) => st.code(),
        Err(e) => {
            eprintln!("HARNESS ERROR: cannot spawn the check process: {}", e);
            Some(2)
        }
    }
}

/// Supervisor: the check proper runs in a child process; if the child is killed by a signal the
/// in-flight journal names the candidate runs, each is re-executed alone in a grandchild, and the one
/// that kills its process again is reported as a violation with its replay file.
fn supervise(prop: &'static str, tier: Tier, seed: u64, args: &[String]) -> i32 {
    let dir = format!("{}/replays/tmp", verif_dir());
    let _ = std::fs::create_dir_all(&dir);
    let journal = format!("{}/journal-{}.bin", dir, std::process::id());
    let _ = std::fs::write(&journal, vec![0u8; 24 * 64]);
    let code = spawn_self(args, Some(&journal));
    let bytes = std::fs::read(&journal).unwrap_or_default();
    let _ = std::fs::remove_file(&journal);
    if let Some(c) = code {
        return c;
    }
    println!("the check process was killed by a signal; looking for the run that kills it");
    let scen = scenarios();
    let mut culprit = None;
    for slot in bytes.chunks(24) {
        if slot.len() < 24 {
            continue;
        }
        let tag = u64::from_le_bytes(slot[..8].try_into().unwrap());
        let run = u64::from_le_bytes(slot[8..16].try_into().unwrap());
        let rseed = u64::from_le_bytes(slot[16..24].try_into().unwrap());
        if tag == 0 {
            continue;
        }
        let e = match scen.iter().find(|e| scenario_tag(e.name) == tag) {
            Some(e) => e,
            None => continue,
        };
        let a = vec!["runone".to_string(), prop.to_string(), tier.name().to_string(), e.name.to_string(), run.to_string(), rseed.to_string()];
        if spawn_self(&a, None).is_none() {
            culprit = Some((e, run, rseed));
            break;
        }
    }
    match culprit {
        Some((e, run, rseed)) => {
            let (file, described) = (e.mk_abort_replay)(&verif_dir(), prop, seed, run, rseed, tier, "killed by a signal, e.g. abort on allocation failure");
            println!("VIOLATION property={} replay={}", prop, file);
            println!("  class={}/process-abort scenario={} run={} :: the library kills the process on this run (allocation failure / abort)", e.name, e.name, run);
            let ev = serde_json::json!({
                "property_id": prop, "tier": tier.name(), "seed": seed, "level": level_of(prop),
                "coverage": { "evaluations": run + 1, "distinct_nontrivial": 2, "rule": "the batch was abandoned: one run kills the process; it was isolated by re-executing the in-flight runs one by one in separate processes (distinct_nontrivial is a placeholder)", "samples": [{"scenario": e.name, "run": run, "seed": rseed, "case": described, "outcome": "process killed"}] },
                "wall_s": 0.0, "violations": 1,
            });
            let _ = std::fs::create_dir_all(format!("{}/evidence", verif_dir()));
            let _ = std::fs::write(format!("{}/evidence/{}.json", verif_dir(), prop), serde_json::to_string_pretty(&ev).unwrap());
            println!("{} {} seed={} -> VIOLATED (a run kills the process)", prop, tier.name(), seed);
            1
        }
        None => {
            // the process may have died while minimising an ordinary violation: the candidate is on disk
            let cand = format!("{}.cand", journal);
            if std::path::Path::new(&cand).exists() {
                let a = vec!["replay".to_string(), cand.clone()];
                if spawn_self(&a, None).is_none() {
                    let keep = format!("{}/replays/{}-process-abort-{}.json", verif_dir(), prop, std::process::id());
                    let _ = std::fs::rename(&cand, &keep);
                    println!("VIOLATION property={} replay={}", prop, keep);
                    println!("  class=process-abort :: a shrunk variant of a violating run kills the process (allocation failure / abort)");
                    println!("{} {} seed={} -> VIOLATED (a run kills the process)", prop, tier.name(), seed);
                    return 1;
                }
                let _ = std::fs::remove_file(&cand);
            }
            println!("HARNESS ERROR: the check process was killed by a signal and no single in-flight run reproduces it; no verdict for {}", prop);
            2
        }
    }
}

fn replay(path: &str) -> i32 {
    let text = std::fs::read_to_string(path).unwrap_or_else(|e| {
        eprintln!("HARNESS ERROR: cannot read {}: {}", path, e);
        std::process::exit(2)
    });
    let doc: serde_json::Value = serde_json::from_str(&text).unwrap_or_else(|e| {
        eprintln!("HARNESS ERROR: {} is not JSON: {}", path, e);
        std::process::exit(2)
    });
    let prop = prop_static(doc["property"].as_str().unwrap_or(""));
    let class = doc["violation_class"].as_str().unwrap_or("").to_string();
    let scen = doc["scenario"].as_str().unwrap_or("");
    let viols = match scen {
        "S1-filter-node" => replay_case::<s1_filters::S1>(&doc, prop),
        "S5a-lossycounter" => replay_case::<s5_topk::S5a>(&doc, prop),
        "S5b-cmsheap" => replay_case::<s5_topk::S5b>(&doc, prop),
        "S8-storage" => replay_case::<s8_storage::S8>(&doc, prop),
        "S2-replicas" => replay_case::<s2_replicas::S2>(&doc, prop),
        "S2h-hll-stream-transport" => replay_case::<s2h_hll::S2h>(&doc, prop),
        "S7-lifecycle" => replay_case::<s7_lifecycle::S7>(&doc, prop),
        "S6-memory" => replay_case::<s6_memory::S6>(&doc, prop),
        "S1L-filter-node-large" => replay_case::<s1l_bigfilters::S1L>(&doc, prop),
        "S9-entry-points" => replay_case::<s9_entrypoints::S9>(&doc, prop),
        "S4-digest" => replay_case::<s4_digest::S4>(&doc, prop),
        "S3a-reservoir-invariants" => replay_case::<s3_reservoir::S3a>(&doc, prop),
        "S3b-reservoir-uniformity" => replay_case::<s3_reservoir::S3b>(&doc, prop),
        _ => {
            eprintln!("HARNESS ERROR: unknown scenario {:?}", scen);
            return 2;
        }
    };
    match viols.iter().find(|v| v.class == class) {
        Some(v) => {
            println!("VIOLATION property={} replay={}", prop, path);
            println!("  class={} step={} :: {}", v.class, v.step, v.detail);
            1
        }
        None => {
            println!("replay of {}: violation class {:?} did not recur ({} other violations)", path, class, viols.len());
            0
        }
    }
}

/// Claimed properties (everything `plan` knows).
const CLAIMED: &[&str] = &["C01", "C02", "C04", "C05", "C06", "C09", "C10", "C11", "C12", "C13", "C14", "C15", "C16", "C17", "C18", "C19", "C20"];

/// Proves determinism on a sample: every claimed check is run in separate processes with the same
/// seed at 1, 5 and 16 workers (and the 16-worker one twice); the event-log hashes (per-run
/// signatures, step counts and verdicts, combined order-independently) must agree.
fn selftest_determinism() -> i32 {
    let exe = std::env::current_exe().expect("current_exe");
    let tmp = format!("{}/replays/tmp/selftest-{}", verif_dir(), std::process::id());
    let _ = std::fs::create_dir_all(&tmp);
    let mut bad = 0;
    let mut runs_total = 0u64;
    for prop in CLAIMED {
        let mut hashes = vec![];
        for (seed, workers) in [(7u64, 1usize), (7, 5), (7, 16), (7, 16)] {
            let out = std::process::Command::new(&exe)
                .args([prop, "--scale", "0.02", "--workers", &workers.to_string()])
                .env("VERIF_SEED", seed.to_string())
                .env("VERIF_DIR", &tmp)
                .output()
                .expect("spawn pdsim");
            let text = String::from_utf8_lossy(&out.stdout).to_string();
            let last = text.lines().last().unwrap_or("").to_string();
            let h = last.split_whitespace().find(|w| w.starts_with("log=")).unwrap_or("log=?").to_string();
            if let Some(r) = last.split_whitespace().find(|w| w.starts_with("runs=")) {
                runs_total += r[5..].parse::<u64>().unwrap_or(0);
            }
            if out.status.code() == Some(2) || h == "log=?" {
                eprintln!("HARNESS ERROR: selftest child for {} failed: {}", prop, text);
                bad += 1;
            }
            hashes.push(h);
        }
        let same = hashes.iter().all(|h| *h == hashes[0]);
        println!("determinism {}: {} {}", prop, hashes[0], if same { "ok (1/5/16/16 workers agree)" } else { "MISMATCH" });
        if !same {
            eprintln!("HARNESS ERROR: event-log hashes differ for {}: {:?}", prop, hashes);
            bad += 1;
        }
    }
    let _ = std::fs::remove_dir_all(&tmp);
    println!("determinism self-test: {} seeded runs compared across processes and worker counts, {} mismatches", runs_total, bad);
    if bad == 0 { 0 } else { 2 }
}

fn main() {
    install_panic_hook();
    let args: Vec<String> = std::env::args().skip(1).collect();
    if args.is_empty() {
        usage();
    }
    let code = match args[0].as_str() {
        "replay" => {
            let path = args.get(1).map(|s| s.as_str()).unwrap_or_else(|| usage());
            if std::env::var("PDSIM_CHILD").is_ok() {
                replay(path)
            } else {
                match spawn_self(&args, None) {
                    Some(c) => c,
                    None => {
                        println!("VIOLATION replay={} :: the replayed run kills the process again", path);
                        1
                    }
                }
            }
        }
        "runone" => {
            // runone <prop> <tier> <scenario> <run> <seed>
            let prop = prop_static(args.get(1).map(|s| s.as_str()).unwrap_or(""));
            let tier = if args.get(2).map(|s| s.as_str()) == Some("thorough") { Tier::Thorough } else { Tier::Quick };
            let name = args.get(3).cloned().unwrap_or_default();
            let run: u64 = args.get(4).and_then(|s| s.parse().ok()).unwrap_or(0);
            let seed: u64 = args.get(5).and_then(|s| s.parse().ok()).unwrap_or(0);
            match scenarios().iter().find(|e| e.name == name) {
                Some(e) => {
                    (e.run_one)(seed, run, prop, tier);
                    0
                }
                None => 2,
            }
        }
        "selftest-determinism" => selftest_determinism(),
        "calibrate-c05" => {
            s3_reservoir::calibrate();
            0
        }
        p => {
            let prop = prop_static(p);
            let mut tier = match std::env::var("VERIF_TIER").ok().as_deref() {
                Some("thorough") => Tier::Thorough,
                _ => Tier::Quick,
            };
            let mut scale: Option<f64> = None;
            let mut workers = std::thread::available_parallelism().map(|x| x.get()).unwrap_or(8).min(16);
            let mut i = 1;
            while i < args.len() {
                match args[i].as_str() {
                    "--tier" => {
                        tier = match args.get(i + 1).map(|s| s.as_str()) {
                            Some("quick") => Tier::Quick,
                            Some("thorough") => Tier::Thorough,
                            _ => usage(),
                        };
                        i += 1;
                    }
                    "--scale" => {
                        scale = args.get(i + 1).and_then(|s| s.parse().ok());
                        i += 1;
                    }
                    "--workers" => {
                        workers = args.get(i + 1).and_then(|s| s.parse().ok()).unwrap_or_else(|| usage());
                        i += 1;
                    }
                    _ => usage(),
                }
                i += 1;
            }
            let seed: u64 = std::env::var("VERIF_SEED").ok().and_then(|s| s.parse().ok()).unwrap_or(1);
            let k = scale.unwrap_or(if tier == Tier::Thorough { 20.0 } else { 1.0 });
            if std::env::var("PDSIM_CHILD").is_err() {
                std::process::exit(supervise(prop, tier, seed, &args));
            }
            if let Ok(j) = std::env::var("PDSIM_JOURNAL") {
                if let Ok(f) = std::fs::OpenOptions::new().write(true).open(&j) {
                    let _ = JOURNAL.set(f);
                }
            }
            println!("pdsim {} tier={} VERIF_SEED={} workers={} scale={}", prop, tier.name(), seed, workers, k);
            // a panic that escapes here is a bug of the simulator itself: harness error, never a verdict
            let r = std::panic::catch_unwind(std::panic::AssertUnwindSafe(|| {
                let mut ctx = CheckCtx::new(prop, tier, seed, workers, verif_dir(), level_of(prop));
                plan(&mut ctx, k);
                ctx.finish()
            }));
            match r {
                Ok(code) => code,
                Err(_) => {
                    eprintln!("HARNESS ERROR: the simulator panicked (see HARNESS PANIC lines above); no verdict");
                    println!("HARNESS ERROR: the simulator panicked; no verdict for {}", prop);
                    2
                }
            }
        }
    };
    std::process::exit(code);
}
