//! Uniform wrapper over the mergeable structures used as replica state in S2 (and in S6 / S7):
//! the three filters, CountMinSketch over five counter types, HyperLogLog.
use crate::anyf::{AnyFilter, FKind};
use crate::hasher::SimHasher;
use pdatastructs::countminsketch::CountMinSketch;
use pdatastructs::hyperloglog::HyperLogLog;
use serde::{Deserialize, Serialize};

pub type Hll = HyperLogLog<u64, SimHasher>;

#[derive(Clone, Debug, PartialEq, Eq, Serialize, Deserialize)]
pub enum NKind {
    Filter(FKind),
    /// counter type: 0 = u8, 1 = u16, 2 = u32, 3 = u64, 4 = usize
    Cms { w: usize, d: usize, ctr: u8 },
    Hll { b: usize },
}

impl NKind {
    pub fn name(&self) -> &'static str {
        match self {
            NKind::Filter(k) => k.name(),
            NKind::Cms { .. } => "cms",
            NKind::Hll { .. } => "hll",
        }
    }
    /// set-like: merging twice changes nothing
    pub fn idempotent(&self) -> bool {
        matches!(self, NKind::Filter(FKind::Bloom { .. }) | NKind::Filter(FKind::Quotient { .. }) | NKind::Filter(FKind::Set) | NKind::Hll { .. })
    }
    /// commutative / associative according to C06
    pub fn commutative(&self) -> bool {
        !matches!(self, NKind::Filter(FKind::Cuckoo { .. }))
    }
    pub fn counter_max(&self) -> u64 {
        match self {
            NKind::Cms { ctr: 0, .. } => u8::MAX as u64,
            NKind::Cms { ctr: 1, .. } => u16::MAX as u64,
            NKind::Cms { ctr: 2, .. } => u32::MAX as u64,
            _ => u64::MAX / 4,
        }
    }
}

pub enum AnyCms {
    U8(CountMinSketch<u64, u8, SimHasher>),
    U16(CountMinSketch<u64, u16, SimHasher>),
    U32(CountMinSketch<u64, u32, SimHasher>),
    U64(CountMinSketch<u64, u64, SimHasher>),
    Us(CountMinSketch<u64, usize, SimHasher>),
}

macro_rules! cms_each {
    ($s:expr, $c:ident => $e:expr) => {
        match $s {
            AnyCms::U8($c) => $e,
            AnyCms::U16($c) => $e,
            AnyCms::U32($c) => $e,
            AnyCms::U64($c) => $e,
            AnyCms::Us($c) => $e,
        }
    };
}

impl AnyCms {
    pub fn build(w: usize, d: usize, ctr: u8, h: SimHasher) -> Self {
        match ctr {
            0 => AnyCms::U8(CountMinSketch::with_params_and_hasher(w, d, h)),
            1 => AnyCms::U16(CountMinSketch::with_params_and_hasher(w, d, h)),
            2 => AnyCms::U32(CountMinSketch::with_params_and_hasher(w, d, h)),
            3 => AnyCms::U64(CountMinSketch::with_params_and_hasher(w, d, h)),
            _ => AnyCms::Us(CountMinSketch::with_params_and_hasher(w, d, h)),
        }
    }
    pub fn add(&mut self, k: u64) -> u64 {
        cms_each!(self, c => c.add(&k) as u64)
    }
    pub fn add_n(&mut self, k: u64, n: u64) -> u64 {
        match self {
            AnyCms::U8(c) => c.add_n(&k, &(n as u8)) as u64,
            AnyCms::U16(c) => c.add_n(&k, &(n as u16)) as u64,
            AnyCms::U32(c) => c.add_n(&k, &(n as u32)) as u64,
            AnyCms::U64(c) => c.add_n(&k, &n),
            AnyCms::Us(c) => c.add_n(&k, &(n as usize)) as u64,
        }
    }
    pub fn query_point(&self, k: u64) -> u64 {
        cms_each!(self, c => c.query_point(&k) as u64)
    }
    pub fn is_empty(&self) -> bool {
        cms_each!(self, c => c.is_empty())
    }
    pub fn clear(&mut self) {
        cms_each!(self, c => c.clear())
    }
    pub fn merge(&mut self, o: &AnyCms) {
        match (self, o) {
            (AnyCms::U8(a), AnyCms::U8(b)) => a.merge(b),
            (AnyCms::U16(a), AnyCms::U16(b)) => a.merge(b),
            (AnyCms::U32(a), AnyCms::U32(b)) => a.merge(b),
            (AnyCms::U64(a), AnyCms::U64(b)) => a.merge(b),
            (AnyCms::Us(a), AnyCms::Us(b)) => a.merge(b),
            _ => unreachable!("merge of different counter types"),
        }
    }
    pub fn clone_from_other(&mut self, o: &AnyCms) -> bool {
        match (self, o) {
            (AnyCms::U8(a), AnyCms::U8(b)) => a.clone_from(b),
            (AnyCms::U16(a), AnyCms::U16(b)) => a.clone_from(b),
            (AnyCms::U32(a), AnyCms::U32(b)) => a.clone_from(b),
            (AnyCms::U64(a), AnyCms::U64(b)) => a.clone_from(b),
            (AnyCms::Us(a), AnyCms::Us(b)) => a.clone_from(b),
            _ => return false,
        }
        true
    }
    pub fn fork(&self) -> AnyCms {
        match self {
            AnyCms::U8(c) => AnyCms::U8(c.clone()),
            AnyCms::U16(c) => AnyCms::U16(c.clone()),
            AnyCms::U32(c) => AnyCms::U32(c.clone()),
            AnyCms::U64(c) => AnyCms::U64(c.clone()),
            AnyCms::Us(c) => AnyCms::Us(c.clone()),
        }
    }
}

pub enum AnyNode {
    Filter(AnyFilter),
    Cms(AnyCms),
    Hll(Hll),
}

impl AnyNode {
    pub fn build(kind: &NKind, h: SimHasher, rng_seed: u64) -> Self {
        match kind {
            NKind::Filter(k) => AnyNode::Filter(AnyFilter::build(k, h, rng_seed, &[])),
            NKind::Cms { w, d, ctr } => AnyNode::Cms(AnyCms::build(*w, *d, *ctr, h)),
            NKind::Hll { b } => AnyNode::Hll(Hll::with_hash(*b, h)),
        }
    }
    /// insert / add; weight only matters for CMS. Err(()) = filter Full. Returns the value `add` returned for CMS.
    pub fn ingest(&mut self, k: u64, weight: u64) -> Result<u64, ()> {
        match self {
            AnyNode::Filter(f) => f.insert(k).map(|b| b as u64),
            AnyNode::Cms(c) => Ok(if weight == 1 { c.add(k) } else { c.add_n(k, weight) }),
            AnyNode::Hll(h) => {
                h.add(&k);
                Ok(0)
            }
        }
    }
    pub fn merge(&mut self, o: &AnyNode) -> Result<(), ()> {
        match (self, o) {
            (AnyNode::Filter(a), AnyNode::Filter(b)) => a.union(b),
            (AnyNode::Cms(a), AnyNode::Cms(b)) => {
                a.merge(b);
                Ok(())
            }
            (AnyNode::Hll(a), AnyNode::Hll(b)) => {
                a.merge(b);
                Ok(())
            }
            _ => unreachable!("merge of different node kinds"),
        }
    }
    pub fn clear(&mut self) {
        match self {
            AnyNode::Filter(f) => f.clear(),
            AnyNode::Cms(c) => c.clear(),
            AnyNode::Hll(h) => h.clear(),
        }
    }
    /// `Clone::clone_from(self, src)` (state transfer); false if the node kinds differ
    pub fn clone_from_other(&mut self, src: &AnyNode) -> bool {
        match (self, src) {
            (AnyNode::Filter(a), AnyNode::Filter(b)) => a.clone_from_other(b),
            (AnyNode::Cms(a), AnyNode::Cms(b)) => a.clone_from_other(b),
            (AnyNode::Hll(a), AnyNode::Hll(b)) => {
                a.clone_from(b);
                true
            }
            _ => false,
        }
    }
    pub fn fork(&self) -> AnyNode {
        match self {
            AnyNode::Filter(f) => AnyNode::Filter(f.fork()),
            AnyNode::Cms(c) => AnyNode::Cms(c.fork()),
            AnyNode::Hll(h) => AnyNode::Hll(h.clone()),
        }
    }
    pub fn is_empty(&self) -> bool {
        match self {
            AnyNode::Filter(f) => f.is_empty(),
            AnyNode::Cms(c) => c.is_empty(),
            AnyNode::Hll(h) => h.is_empty(),
        }
    }
    /// Everything C06 calls observable, over the given keys: query / query_point per key, then
    /// len / count / registers, then is_empty.
    pub fn observe(&self, keys: &[u64]) -> Vec<u64> {
        let mut o = Vec::with_capacity(keys.len() + 4);
        match self {
            AnyNode::Filter(f) => {
                for &k in keys {
                    o.push(f.query(k) as u64);
                }
                o.push(f.len() as u64);
                o.push(f.is_empty() as u64);
            }
            AnyNode::Cms(c) => {
                for &k in keys {
                    o.push(c.query_point(k));
                }
                o.push(c.is_empty() as u64);
            }
            AnyNode::Hll(h) => {
                let mut acc = 0u64;
                for (i, &r) in h.registers().iter().enumerate() {
                    acc = crate::rng::mix2(acc, (i as u64) << 8 | r as u64);
                }
                o.push(acc);
                o.push(h.count() as u64);
                o.push(h.is_empty() as u64);
            }
        }
        o
    }
}
