//! S6 — memory: the global allocator of the checking process is the seam. Live heap bytes
//! attributable to one structure are measured after construction, at every decade of stream length,
//! after failed operations, after clear() and after drop (C11).
use crate::alloc;
use crate::anyf::FKind;
use crate::framework::*;
use crate::hasher::{HashMode, SimHasher};
use crate::life::{build_life, LKind};
use crate::rng::Sm;
use serde::{Deserialize, Serialize};
use serde_json::{json, Value};

#[derive(Clone, Debug, Serialize, Deserialize)]
pub struct MemCase {
    pub kind: LKind,
    pub hasher: SimHasher,
    pub rng_seed: u64,
    pub stream_seed: u64,
    pub alphabet: u64,
    /// stream length (measured at 10^2, 10^3, ... and at n)
    pub n: usize,
    pub clear_at: usize,
    /// 0: element by element; otherwise the stream is handed over in chunks of this size (through
    /// `Extend` where the structure has it)
    #[serde(default)]
    pub chunk: usize,
    /// a read (`touch`) after every this many elements (0: only at the measurement points)
    #[serde(default)]
    pub touch_every: usize,
    /// 0: elements drawn independently; otherwise the stream repeats a pattern of this length in
    /// which some positions carry recurring elements and the others never-seen-before ones
    #[serde(default)]
    pub period: usize,
}

pub struct S6;

fn v(class: String, step: usize, detail: String) -> Violation {
    Violation { property: "C11", class, step, detail }
}

pub const WIDTHS: [usize; 9] = [2, 3, 5, 8, 13, 16, 32, 48, 64];

fn harmonic(n: usize) -> f64 {
    (1..=n.max(1)).map(|i| 1.0 / i as f64).sum()
}

/// (documented bytes as a function of the configuration (and, for LossyCounter, of n), factor)
pub fn documented(kind: &LKind, n: usize) -> (f64, f64) {
    match kind {
        LKind::Filter(FKind::Bloom { m, k }) => (*m as f64 / 8.0 + 8.0 * *k as f64, 1.5),
        LKind::Filter(FKind::Cuckoo { bucketsize, n_buckets, l_fp }) => ((bucketsize * n_buckets * l_fp) as f64 / 8.0, 1.5),
        LKind::Filter(FKind::Quotient { q, r }) => (((1usize << q) * (r + 3)) as f64 / 8.0, 1.5),
        LKind::Filter(FKind::Set) => (f64::INFINITY, 1.0),
        LKind::Cms { w, d, ctr } => {
            let sz = [1usize, 2, 4, 8, 8][(*ctr).min(4) as usize];
            ((w * d * sz) as f64 + 8.0 * *d as f64, 1.5)
        }
        LKind::Hll { b } => ((1usize << b) as f64, 1.5),
        LKind::Digest { delta, backlog, .. } => ((delta + 3.0 + *backlog as f64 + 1.0) * 16.0, 4.0),
        LKind::Reservoir { k } => (*k as f64 * 8.0, 4.0),
        LKind::Heap { k, w, d } => (*k as f64 * (8.0 + 160.0) + (w * d * 8) as f64 + 8.0 * *d as f64, 4.0),
        LKind::Lossy { width } => (*width as f64 * (harmonic((n + width - 1) / width) + 1.0) * (8.0 + 24.0), 4.0),
    }
}

const SLACK: f64 = 512.0;

fn gen_mem_kind(g: &mut Sm, which: u64) -> LKind {
    match which {
        0 => LKind::Filter(FKind::Bloom { m: *g.pick(&[64usize, 1000, 8192, 100_000, 1 << 20]), k: g.range(1, 8) as usize }),
        1 => LKind::Filter(FKind::Cuckoo { bucketsize: *g.pick(&[2usize, 4, 8]), n_buckets: 1 << g.range(1, 12), l_fp: *g.pick(&WIDTHS) }),
        2 => {
            let q = g.range(1, 14) as usize;
            let r = *g.pick(&WIDTHS);
            LKind::Filter(FKind::Quotient { q, r: r.min(64 - q) })
        }
        3 => LKind::Cms { w: *g.pick(&[8usize, 16, 100, 1000, 4096]), d: g.range(1, 8) as usize, ctr: g.below(5) as u8 + if g.chance(1, 2) { 0 } else { 0 } },
        4 => LKind::Hll { b: g.range(4, 18) as usize },
        5 => LKind::Digest { scale: g.below(4) as u8, delta: *g.pick(&[1.5, 5.0, 20.0, 100.0, 500.0]), backlog: *g.pick(&[0usize, 1, 10, 100, 1000]), wscale: if g.chance(1, 5) { *g.pick(&[1e-320, 1e-310, 1e250, 1e-200]) } else { 1.0 } },
        6 => LKind::Reservoir { k: *g.pick(&[1usize, 2, 10, 100, 1000]) },
        7 => LKind::Lossy { width: *g.pick(&[1usize, 2, 10, 100, 1000]) },
        _ => LKind::Heap { k: *g.pick(&[1usize, 3, 10, 100]), w: *g.pick(&[1usize, 16, 256]), d: g.range(1, 4) as usize },
    }
}

impl Scenario for S6 {
    type Case = MemCase;
    const NAME: &'static str = "S6-memory";
    const RULE: &'static str = "one of the nine structures with a configuration from the grid (fingerprint / remainder widths 2,3,5,8,13,16,32,48,64; table sizes up to 2^14 slots; delta, backlog, k, width over orders of magnitude) is fed a seeded stream; live heap bytes are read from the counting allocator after construction, at every decade of stream length, after clear() and after drop";

    fn generate(seed: u64, run: u64, _prop: &'static str, tier: Tier) -> MemCase {
        let mut g = Sm::new(seed);
        let kind = gen_mem_kind(&mut g, run % 9);
        let mode = match g.below(4) {
            0 => HashMode::Sip,
            1 => HashMode::Buckets(g.range(1, 100) as u32),
            _ => HashMode::Mix,
        };
        let nmax = if tier == Tier::Thorough { 1_000_000 } else { 100_000 };
        // CMS counters must not overflow (documented unwrap): at most 3 per operation
        let n = match &kind {
            LKind::Cms { ctr: 0, .. } => 80,
            LKind::Cms { ctr: 1, .. } => 20_000,
            // an insert into a full cuckoo table walks 500 kicks: keep those streams shorter
            LKind::Filter(FKind::Cuckoo { .. }) => nmax / 10,
            LKind::Digest { delta, backlog, .. } if *backlog == 0 && *delta > 50.0 => nmax / 10,
            _ => nmax,
        };
        let alphabet = *g.pick(&[1u64, 10, 1000, 1_000_000, u64::MAX]);
        let clear_at = if g.chance(1, 3) { g.range(1, n as u64) as usize } else { 0 };
        let chunk = if g.chance(1, 3) { *g.pick(&[1000usize, 10_000, 1_000_000]) } else { 0 };
        let touch_every = if chunk == 0 && g.chance(1, 3) { *g.pick(&[1usize, 1, 2, 3, 7]) } else { 0 };
        let mut alphabet = alphabet;
        let period = if g.chance(1, 3) {
            alphabet = u64::MAX;
            match &kind {
                // periods that divide the window width, and a few that do not
                LKind::Lossy { width } => *g.pick(&[*width, *width, (*width / 2).max(1), (*width / 5).max(1), 10, 7, 2 * *width]),
                _ => *g.pick(&[1usize, 2, 7, 10, 100, 1000]),
            }
        } else {
            0
        };
        MemCase { kind, hasher: SimHasher::new(mode, g.u64()), rng_seed: g.u64(), stream_seed: g.u64(), alphabet, n, clear_at, chunk, touch_every, period }
    }

    fn execute(case: &MemCase, prop: &'static str) -> Outcome {
        let mut stats = RunStats::default();
        let mut viol: Vec<Violation> = vec![];
        let name = case.kind.name();
        stats.sig(case.kind.index());
        let mut step = 0usize;
        let r = guarded(|| {
            alloc::reset();
            let mut s = alloc::tracked(|| build_life(&case.kind, case.hasher, case.rng_seed, &[], 0, case.alphabet.min(1 << 40)));
            let mut g = Sm::new(case.stream_seed);
            let mut marks: Vec<(usize, i64)> = vec![];
            let check = |held: i64, n_seen: usize, when: &str, viol: &mut Vec<Violation>, step: usize| -> bool {
                let (doc, factor) = documented(&case.kind, n_seen.max(1));
                let bound = factor * doc + SLACK;
                if held as f64 > bound {
                    viol.push(v(format!("{}/memory/exceeds-documented-bound", name), step,
                        format!("{:?}: {} live bytes {} (stream length {}); documented {:.0} bytes, allowed {} x that + {} = {:.0}", case.kind, held, when, n_seen, doc, factor, SLACK, bound)));
                    return false;
                }
                true
            };
            if !check(alloc::live(), 0, "after construction", &mut viol, 0) {
                return;
            }
            stats.sig((alloc::live() as u64).min(1 << 30) >> 6);
            let mut next_mark = 100usize;
            let mut pending: Vec<(u64, u64)> = Vec::new();
            let mut failed = 0u64;
            let mut since_clear = 0usize;
            // periodic streams: which positions of the period carry a recurring element (and which one)
            let pattern: Vec<Option<u64>> = {
                let mut pg = Sm::new(crate::rng::mix2(case.stream_seed, 0x9e7));
                let mut p: Vec<Option<u64>> = (0..case.period).map(|_| if pg.chance(1, 3) { Some(pg.below(3)) } else { None }).collect();
                if case.period >= 2 && pg.chance(2, 3) {
                    // the same recurring element in the middle and at the end of every period
                    let r = pg.below(3);
                    p[case.period - 1] = Some(r);
                    p[case.period / 2 - if case.period > 2 { pg.usize(case.period / 2) } else { 0 }] = Some(r);
                }
                p
            };
            if case.period > 0 {
                stats.probe("periodic_stream");
            }
            if case.touch_every > 0 {
                stats.probe("read_between_inserts");
            }
            for i in 0..case.n {
                step = i + 1;
                if case.clear_at == i && i > 0 {
                    alloc::tracked(|| s.clear());
                    stats.fault("node_restart");
                    since_clear = 0;
                    if !check(alloc::live(), 0, "after clear()", &mut viol, step) {
                        return;
                    }
                }
                let mut a = if case.alphabet == u64::MAX { g.u64() } else { g.below(case.alphabet) };
                let b = g.below(64);
                if case.period > 0 {
                    // position in the stream since the last clear(): windows restart there too
                    a = match pattern[since_clear % case.period] {
                        Some(r) => r,
                        None => 1000 + i as u64,
                    };
                }
                if case.chunk > 0 {
                    // hand the elements over in chunks that end at the measurement points
                    pending.push((a, b));
                    since_clear += 1;
                    let flush = pending.len() >= case.chunk || i + 1 == next_mark || i + 1 == case.n || (case.clear_at == i + 1);
                    if flush {
                        alloc::tracked(|| s.apply_chunk(&pending));
                        pending.clear();
                        stats.probe("chunk_fed");
                    }
                    if !flush {
                        continue;
                    }
                }
                let (res, ok) = if case.chunk > 0 { (0, true) } else { alloc::tracked(|| s.apply(a, b)) };
                if case.chunk == 0 {
                    since_clear += 1;
                    if case.touch_every > 0 && since_clear % case.touch_every == 0 {
                        alloc::tracked(|| s.touch());
                    }
                }
                if !ok && res == 2 {
                    failed += 1;
                    if failed == 1 || failed % 1000 == 0 {
                        stats.fault("full_insert");
                        if !check(alloc::live(), since_clear, "after a failed insert", &mut viol, step) {
                            return;
                        }
                    }
                }
                if i + 1 == next_mark || i + 1 == case.n {
                    alloc::tracked(|| s.touch());
                    let held = alloc::live();
                    stats.steps += 1;
                    stats.probe("measurements");
                    if !check(held, since_clear, "while processing the stream", &mut viol, step) {
                        return;
                    }
                    if case.clear_at == 0 || i + 1 < case.clear_at {
                        marks.push((i + 1, held));
                    }
                    if i + 1 == next_mark {
                        next_mark *= 10;
                    }
                }
            }
            // no growth with the stream (all but LossyCounter): a decade more data, at most twice the memory
            if !matches!(case.kind, LKind::Lossy { .. }) {
                for w in marks.windows(2) {
                    let ((n1, h1), (n2, h2)) = (w[0], w[1]);
                    if n1 >= 10_000 && n2 >= 10 * n1 && (h2 as f64) > 2.0 * h1 as f64 + SLACK {
                        viol.push(v(format!("{}/memory/grows-with-stream", name), step,
                            format!("{:?}: {} live bytes after {} elements, {} after {}", case.kind, h1, n1, h2, n2)));
                        return;
                    }
                }
                if marks.len() >= 2 {
                    stats.probe("growth_comparisons");
                }
            }
            stats.sig(marks.len() as u64);
            alloc::tracked(|| drop(s));
            if alloc::live() != 0 {
                viol.push(v(format!("{}/memory/not-released-on-drop", name), step, format!("{} bytes still accounted to the structure after drop", alloc::live())));
            }
        });
        if let Caught::LibPanic(loc, msg) = r {
            viol.push(v(format!("{}/panic/{}", name, panic_site(&loc)), step, format!("panic at {}: {}", loc, msg)));
        }
        // every run owns the allocator seam: non-trivial by construction
        stats.fault("allocator_accounting");
        Outcome { stats, violations: viol.into_iter().filter(|x| x.property == prop).collect() }
    }

    fn shrink(case: &MemCase) -> Vec<MemCase> {
        let mut out = vec![];
        for n in [0usize, 1, 100, case.n / 10] {
            if n < case.n {
                let mut c = case.clone();
                c.n = n;
                if c.clear_at >= n {
                    c.clear_at = 0;
                }
                out.push(c);
            }
        }
        if case.clear_at != 0 {
            let mut c = case.clone();
            c.clear_at = 0;
            out.push(c);
        }
        if case.touch_every != 0 {
            let mut c = case.clone();
            c.touch_every = 0;
            out.push(c);
        }
        if case.period != 0 {
            let mut c = case.clone();
            c.period = 0;
            out.push(c);
        }
        // smaller tables of the same shape
        match &case.kind {
            LKind::Filter(FKind::Cuckoo { bucketsize, n_buckets, l_fp }) if *n_buckets > 2 => {
                let mut c = case.clone();
                c.kind = LKind::Filter(FKind::Cuckoo { bucketsize: *bucketsize, n_buckets: n_buckets / 2, l_fp: *l_fp });
                out.push(c);
            }
            LKind::Filter(FKind::Quotient { q, r }) if *q > 1 => {
                let mut c = case.clone();
                c.kind = LKind::Filter(FKind::Quotient { q: q - 1, r: *r });
                out.push(c);
            }
            _ => {}
        }
        out
    }

    fn describe(case: &MemCase) -> Value {
        json!({"kind": case.kind, "hasher": case.hasher, "n": case.n, "alphabet": case.alphabet, "clear_at": case.clear_at, "chunk": case.chunk, "read_every": case.touch_every, "period": case.period})
    }
}
