//! S7 — lifecycle: `clear()` is a restart that keeps only the configuration, `clone()` a fork at an
//! arbitrary instant (C19). A prefix (with failed operations), clear(), then a continuation that a
//! fresh instance of the same configuration receives in lock-step; for the RNG-driven structures the
//! fresh instance's generator starts at the stream position the cleared instance's has reached.
use crate::anyf::FKind;
use crate::framework::*;
use crate::hasher::{HashMode, SimHasher};
use crate::life::{build_life, LKind, Life};
use crate::rng::Sm;
use crate::s1_filters::{gen_kind, shrink_vec};
#[allow(unused_imports)]
use crate::anyf::FKind as _FKindForMatch;
use serde::{Deserialize, Serialize};
use serde_json::{json, Value};

#[derive(Clone, Debug, Serialize, Deserialize)]
pub struct LifeCase {
    pub kind: LKind,
    pub hasher: SimHasher,
    pub rng_seed: u64,
    pub alphabet: u64,
    pub keys: Vec<u64>,
    pub prefix: Vec<(u64, u64)>,
    pub cont: Vec<(u64, u64)>,
    /// take a clone after this many prefix operations
    pub fork_at: Option<usize>,
}

pub struct S7;

fn v(class: String, step: usize, detail: String) -> Violation {
    Violation { property: "C19", class, step, detail }
}

fn first_diff(a: &[u64], b: &[u64]) -> String {
    if a.len() != b.len() {
        return format!("observer lengths {} vs {}", a.len(), b.len());
    }
    match (0..a.len()).find(|&i| a[i] != b[i]) {
        Some(i) => format!("observer #{}: {} vs {} (as f64: {:e} vs {:e})", i, a[i], b[i], f64::from_bits(a[i]), f64::from_bits(b[i])),
        None => "none".into(),
    }
}

/// Operations with `y >= 64` are "absorb a peer": a fresh instance of the same configuration
/// receives 1..3 plain additions derived from (x, y) and is then union()ed / merge()d into the
/// target - state that arrives without one insert / add on the receiver itself. Structures without
/// such an operation treat the operation as an ordinary one. Returns (result code, number of
/// additions that arrived, true if it was an absorb).
fn do_op(t: &mut dyn Life, case: &LifeCase, x: u64, y: u64) -> (u64, u64, bool) {
    if y >= 64 {
        let mut peer = build_life(&case.kind, case.hasher, case.rng_seed ^ 0xab50 ^ x, &[], 0, case.alphabet);
        let mut n = 0u64;
        for j in 0..(1 + y % 3) {
            let k = if j == 0 { x } else { case.keys[((x ^ y).wrapping_add(j) % case.keys.len() as u64) as usize] };
            if peer.apply(k, 0).1 {
                n += 1;
            }
        }
        if let Some(r) = t.absorb_dyn(peer.as_ref()) {
            return (r + 8, if r == 0 { n } else { 0 }, true);
        }
    }
    let (r, ok) = t.apply(x, y % 64);
    (r, ok as u64, false)
}

pub fn gen_lkind(g: &mut Sm, which: u64, nops: usize) -> LKind {
    let realistic = g.chance(1, 6);
    match which {
        0 => {
            let k = gen_kind(g, 0, realistic);
            match k {
                FKind::Bloom { m, k } => LKind::Filter(FKind::Bloom { m: m.max(2), k: k.max(1) }),
                x => LKind::Filter(x),
            }
        }
        1 => LKind::Filter(gen_kind(g, 1, realistic)),
        2 => LKind::Filter(gen_kind(g, 2, realistic)),
        3 => {
            // counter wide enough for 3 * nops
            let need = 3 * nops as u64 + 3;
            let min_ctr = if need <= 255 { 0 } else if need <= 65535 { 1 } else { 2 };
            LKind::Cms { w: g.range(1, 8) as usize, d: g.range(1, 5) as usize, ctr: g.range(min_ctr, 4) as u8 }
        }
        4 => LKind::Hll { b: if g.chance(1, 3) { g.range(4, 18) as usize } else { g.range(4, 7) as usize } },
        5 => LKind::Digest {
            scale: g.below(4) as u8,
            delta: *g.pick(&[1.1, 2.0, 5.0, 10.0, 20.0, 100.0]),
            backlog: *g.pick(&[0usize, 1, 3, 10, 100]),
            wscale: if g.chance(1, 6) { *g.pick(&[1e-320, 1e-310, 1e250]) } else { 1.0 },
        },
        6 => LKind::Reservoir { k: g.range(1, 12) as usize },
        7 => LKind::Lossy { width: if g.chance(1, 3) { g.range(31, 260) } else { g.range(1, 30) } as usize },
        _ => LKind::Heap { k: g.range(1, 6) as usize, w: *g.pick(&[1usize, 2, 3, 8, 64]), d: g.range(1, 3) as usize },
    }
}

impl Scenario for S7 {
    type Case = LifeCase;
    const NAME: &'static str = "S7-lifecycle";
    const RULE: &'static str = "one of the nine structures (T-Digest with each scale function) with a seeded configuration; prefix of 0..2000 operations (tiny filters, so failed inserts occur; in half of the runs an eighth, a half or all of the operations union / merge a small peer of the same configuration into the instance), clear(), continuation of 1..600 operations applied in lock-step to a fresh instance (RNG stream aligned); clones taken at a seeded instant are checked in both directions";

    fn generate(seed: u64, run: u64, _prop: &'static str, tier: Tier) -> LifeCase {
        let mut g = Sm::new(seed);
        let which = run % 9;
        let big = tier == Tier::Thorough;
        let np = match g.below(6) {
            0 => 0,
            1 | 2 => g.range(1, 40),
            3 | 4 => g.range(20, 400),
            _ => g.range(200, if big { 5000 } else { 2000 }),
        } as usize;
        let nc = match g.below(4) {
            0 => g.range(1, 10),
            1 | 2 => g.range(5, 120),
            _ => g.range(50, if big { 2000 } else { 600 }),
        } as usize;
        let kind = gen_lkind(&mut g, which, np + 2 * nc);
        let mode = match g.below(5) {
            0 => HashMode::Identity,
            1 => HashMode::Sip,
            2 => HashMode::Buckets(g.range(1, 16) as u32),
            _ => HashMode::Mix,
        };
        let hasher = SimHasher::new(mode, g.u64());
        let alphabet = g.range(1, 60);
        let nk = g.range(4, 32) as usize;
        let key = |g: &mut Sm| -> u64 {
            match g.below(3) {
                0 => g.below(64),
                1 => (g.below(12) << 32) | g.below(16),
                _ => g.u64(),
            }
        };
        let keys: Vec<u64> = (0..nk).map(|_| key(&mut g)).collect();
        let hot = g.range(1, nk as u64) as usize;
        // share of "absorb a peer" operations: none in half of the runs, all of them in a sixth
        let absorb = *g.pick(&[0u64, 0, 0, 1, 4, 8]);
        let op = |g: &mut Sm| -> (u64, u64) {
            let a = if g.chance(3, 4) { keys[g.usize(hot)] } else { key(g) };
            let b = g.below(64);
            (a, if g.below(8) < absorb { b + 64 } else { b })
        };
        let prefix: Vec<(u64, u64)> = (0..np).map(|_| op(&mut g)).collect();
        let cont: Vec<(u64, u64)> = (0..nc).map(|_| op(&mut g)).collect();
        let fork_at = if g.chance(2, 3) { Some(g.usize(np + 1)) } else { None };
        LifeCase { kind, hasher, rng_seed: g.u64(), alphabet, keys, prefix, cont, fork_at }
    }

    fn execute(case: &LifeCase, prop: &'static str) -> Outcome {
        let mut stats = RunStats::default();
        let mut viol: Vec<Violation> = vec![];
        let mut step = 0usize;
        let name = case.kind.name();
        stats.sig(case.kind.index());
        let r = guarded(|| {
            let keys = &case.keys;
            let mut a = build_life(&case.kind, case.hasher, case.rng_seed, &[], 0, case.alphabet);
            let mut added = 0u64;
            if a.is_empty() == Some(false) {
                viol.push(v(format!("{}/is_empty/fresh", name), 0, "a freshly constructed structure is not empty".into()));
                return;
            }
            let mut fork: Option<(Box<dyn Life>, Vec<u64>)> = None;
            for (i, &(x, y)) in case.prefix.iter().enumerate() {
                step = i + 1;
                if case.fork_at == Some(i) {
                    let c = a.fork();
                    let (oa, oc) = (a.observe(keys), c.observe(keys));
                    if oa != oc {
                        viol.push(v(format!("{}/clone/differs-at-fork", name), step, format!("clone answers differently at the time of cloning: {}", first_diff(&oa, &oc))));
                        return;
                    }
                    stats.fault("fork");
                    fork = Some((c, oc));
                }
                let (res, n_added, absorbed) = do_op(a.as_mut(), case, x, y);
                let ok = n_added > 0;
                if absorbed {
                    stats.fault(if res == 8 { "absorb_peer" } else { "absorb_peer_refused" });
                }
                stats.steps += 1;
                if i < 24 {
                    stats.sig(res.min(3) + if absorbed { 16 } else { 0 });
                }
                if ok {
                    added += n_added;
                } else if res == 2 {
                    stats.fault("full_insert");
                } else if res == 4 {
                    // a successful delete (cuckoo) takes exactly one copy away again
                    added = added.saturating_sub(1);
                    stats.probe("prefix_with_delete");
                }
                if let Some(e) = a.is_empty() {
                    if e != (added == 0) {
                        viol.push(v(format!("{}/is_empty", name), step, format!("is_empty() = {} with {} more successful additions than deletes", e, added)));
                        return;
                    }
                }
            }
            if case.fork_at == Some(case.prefix.len()) {
                let c = a.fork();
                let oc = c.observe(keys);
                stats.fault("fork");
                fork = Some((c, oc));
            }
            // restart
            step = case.prefix.len() + 1;
            a.clear();
            stats.fault("node_restart");
            if !case.prefix.is_empty() && case.prefix.iter().all(|o| o.1 >= 64) {
                stats.probe("restart_of_state_that_arrived_by_absorb_only");
            }
            stats.sig(case.prefix.len() as u64);
            stats.sig(case.cont.len() as u64);
            let pos = a.rng_pos();
            if pos > 0 {
                stats.probe("rng_stream_aligned_at_nonzero_position");
            }
            let mut f = build_life(&case.kind, case.hasher, case.rng_seed, &[], pos, case.alphabet);
            let (oa, of) = (a.observe(keys), f.observe(keys));
            if oa != of {
                viol.push(v(format!("{}/clear/differs-from-fresh", name), step, format!("right after clear() (prefix of {} operations): {}", case.prefix.len(), first_diff(&oa, &of))));
                return;
            }
            if a.is_empty() == Some(false) {
                viol.push(v(format!("{}/clear/not-empty", name), step, "is_empty() false after clear()".into()));
                return;
            }
            added = 0;
            for (i, &(x, y)) in case.cont.iter().enumerate() {
                step = case.prefix.len() + 2 + i;
                let (ra, na, _) = do_op(a.as_mut(), case, x, y);
                let (rf, _, _) = do_op(f.as_mut(), case, x, y);
                let oka = na > 0;
                stats.steps += 1;
                if i < 24 {
                    stats.sig(ra.min(3) + 4);
                }
                if oka {
                    added += na;
                } else if ra == 4 {
                    added = added.saturating_sub(1);
                }
                if ra != rf {
                    viol.push(v(format!("{}/clear/continuation-result-differs", name), step, format!("operation {} of the continuation returned {} on the cleared instance, {} on the fresh one", i + 1, ra, rf)));
                    return;
                }
                let (oa, of) = (a.observe(keys), f.observe(keys));
                if oa != of {
                    viol.push(v(format!("{}/clear/continuation-differs", name), step, format!("after {} continuation operations (prefix {}): {}", i + 1, case.prefix.len(), first_diff(&oa, &of))));
                    return;
                }
                if let Some(e) = a.is_empty() {
                    if e != (added == 0) {
                        viol.push(v(format!("{}/is_empty", name), step, format!("is_empty() = {} after clear() with {} more successful additions than deletes", e, added)));
                        return;
                    }
                }
            }
            // the clone taken during the prefix must not have moved
            if let Some((c, oc)) = fork {
                let now = c.observe(keys);
                if now != oc {
                    viol.push(v(format!("{}/clone/not-independent", name), step, format!("mutating / clearing the original changed the clone: {}", first_diff(&oc, &now))));
                    return;
                }
            }
            // clone_from onto an instance of a *different* configuration of the same structure type:
            // afterwards the target is a copy of the source in every respect
            {
                let which = match &case.kind {
                    LKind::Filter(FKind::Bloom { .. }) => 0,
                    LKind::Filter(FKind::Cuckoo { .. }) => 1,
                    LKind::Filter(FKind::Quotient { .. }) => 2,
                    LKind::Filter(FKind::Set) => 0,
                    LKind::Cms { .. } => 3,
                    LKind::Hll { .. } => 4,
                    LKind::Digest { .. } => 5,
                    LKind::Reservoir { .. } => 6,
                    LKind::Lossy { .. } => 7,
                    LKind::Heap { .. } => 8,
                };
                let mut g2 = Sm::new(case.rng_seed ^ 0xc10e);
                let mut other = gen_lkind(&mut g2, which, case.prefix.len() + 2 * case.cont.len());
                if let (LKind::Digest { scale, .. }, LKind::Digest { scale: s2, .. }) = (&case.kind, &mut other) {
                    *s2 = *scale;
                }
                if let (LKind::Cms { ctr, .. }, LKind::Cms { ctr: c2, .. }) = (&case.kind, &mut other) {
                    *c2 = *ctr;
                }
                let mut dst = build_life(&other, case.hasher, case.rng_seed ^ 0xd57, &[], 0, case.alphabet);
                for &(x, y) in case.prefix.iter().take(12) {
                    dst.apply(x, y);
                }
                if dst.clone_from_dyn(a.as_ref()) {
                    stats.probe("clone_from_checked");
                    let (oa, od) = (a.observe(keys), dst.observe(keys));
                    if oa != od {
                        viol.push(v(format!("{}/clone_from/differs-from-source", name), step, format!("after dst.clone_from(&src) with dst of configuration {:?}: {}", other, first_diff(&oa, &od))));
                        return;
                    }
                    let mut a2 = a.fork();
                    for (i, &(x, y)) in case.cont.iter().take(40).enumerate() {
                        let (r1, _, _) = do_op(dst.as_mut(), case, x, y);
                        let (r2, _, _) = do_op(a2.as_mut(), case, x, y);
                        let (o1, o2) = (dst.observe(keys), a2.observe(keys));
                        if r1 != r2 || o1 != o2 {
                            viol.push(v(format!("{}/clone_from/diverges", name), step, format!("operation {} after clone_from: result {} vs {} on a clone() of the same source; {}", i + 1, r1, r2, first_diff(&o1, &o2))));
                            return;
                        }
                    }
                }
            }
            // and the other direction: mutate a clone, the original must not move
            let before = a.observe(keys);
            let mut c2 = a.fork();
            for &(x, y) in case.cont.iter().take(50) {
                c2.apply(x ^ 0x55, y);
            }
            c2.clear();
            stats.fault("fork");
            let after = a.observe(keys);
            if before != after {
                viol.push(v(format!("{}/clone/not-independent", name), step, format!("mutating / clearing a clone changed the original: {}", first_diff(&before, &after))));
            }
        });
        if let Caught::LibPanic(loc, msg) = r {
            viol.push(v(format!("{}/panic/{}", name, panic_site(&loc)), step, format!("panic at {}: {}", loc, msg)));
        }
        Outcome { stats, violations: viol.into_iter().filter(|x| x.property == prop).collect() }
    }

    fn shrink(case: &LifeCase) -> Vec<LifeCase> {
        let mut out = vec![];
        for p in shrink_vec(&case.prefix).into_iter().take(200) {
            let mut c = case.clone();
            c.prefix = p;
            if let Some(f) = c.fork_at {
                if f > c.prefix.len() {
                    c.fork_at = Some(c.prefix.len());
                }
            }
            out.push(c);
        }
        for q in shrink_vec(&case.cont).into_iter().take(200) {
            let mut c = case.clone();
            c.cont = q;
            out.push(c);
        }
        if case.fork_at.is_some() {
            let mut c = case.clone();
            c.fork_at = None;
            out.push(c);
        }
        if case.keys.len() > 1 {
            for k in shrink_vec(&case.keys).into_iter().take(40) {
                if !k.is_empty() {
                    let mut c = case.clone();
                    c.keys = k;
                    out.push(c);
                }
            }
        }
        out
    }

    fn describe(case: &LifeCase) -> Value {
        json!({"kind": case.kind, "hasher": case.hasher, "prefix_len": case.prefix.len(), "cont_len": case.cont.len(), "fork_at": case.fork_at,
               "first_prefix_ops": case.prefix.iter().take(8).collect::<Vec<_>>(), "first_cont_ops": case.cont.iter().take(8).collect::<Vec<_>>()})
    }
}
