//! S1L — the same filter node as S1 at realistic scale: quotient filters with 2^8..2^14 slots and
//! cuckoo filters with up to 2^14 slots, filled to and beyond capacity with thousands of keys.
//! Fingerprints are (nearly) full width, so that distinct keys are distinct classes and the model is
//! an exact set / multiset of keys; a reported phantom is confirmed against single-element filters
//! before it counts. Serves C01, C12, C13, C14, C06 (the large-scale half of their quantifiers).
use crate::anyf::{AnyFilter, FKind};
use crate::framework::*;
use crate::hasher::{HashMode, SimHasher};
use crate::rng::{mix2, Sm};
use crate::s1_filters::shrink_vec;
use serde::{Deserialize, Serialize};
use serde_json::{json, Value};
use std::collections::HashMap;

#[derive(Clone, Debug, Serialize, Deserialize)]
pub enum BigOp {
    /// insert key(i) for i in from..to
    Insert { from: u64, to: u64 },
    /// cuckoo: delete key(i) for i in from..to step `step`
    Delete { from: u64, to: u64, step: u64 },
    /// union with a fresh filter holding key(from..to); cuckoo: every `del_step`-th of them deleted
    /// again before the union (holes in the operand's buckets)
    Union { from: u64, to: u64, del_step: u64 },
    Clear,
    /// quotient only: `a.union(&a.clone())` must change nothing (C06 idempotence at scale)
    SelfUnion,
}

#[derive(Clone, Debug, Serialize, Deserialize)]
pub struct BigCase {
    pub kind: FKind,
    pub hasher: SimHasher,
    pub rng_seed: u64,
    pub key_seed: u64,
    pub sample_seed: u64,
    pub ops: Vec<BigOp>,
}

pub struct S1L;

fn v(property: &'static str, class: String, step: usize, detail: String) -> Violation {
    Violation { property, class, step, detail }
}

struct Exec<'a> {
    case: &'a BigCase,
    kname: &'static str,
    stats: RunStats,
    viol: Vec<Violation>,
    step: usize,
    count: HashMap<u64, u32>,
    total: usize,
    ever: Vec<u64>,
    g: Sm,
    next_probe: u64,
    is_cuckoo: bool,
}

impl<'a> Exec<'a> {
    fn key(&self, i: u64) -> u64 {
        mix2(self.case.key_seed, i)
    }
    fn class_prop(&self) -> &'static str {
        if self.is_cuckoo {
            "C14"
        } else {
            "C13"
        }
    }
    fn model_has(&self, i: u64) -> bool {
        self.count.get(&i).copied().unwrap_or(0) > 0
    }

    /// is `y` (not in the model) indistinguishable from some key the model holds?
    fn phantom_explained(&mut self, y: u64) -> bool {
        self.stats.probe("phantom_confirmation");
        let held: Vec<u64> = self.count.iter().filter(|(_, c)| **c > 0).map(|(i, _)| *i).collect();
        for i in held {
            let mut g = AnyFilter::build(&self.case.kind, self.case.hasher, 1, &[]);
            if g.insert(self.key(i)).is_ok() && g.query(y) {
                return true;
            }
        }
        false
    }

    fn sample(&mut self, touched: &[u64]) -> Vec<u64> {
        let mut s: Vec<u64> = vec![];
        for _ in 0..300.min(touched.len()) {
            s.push(touched[self.g.usize(touched.len())]);
        }
        if touched.len() <= 300 {
            s.extend_from_slice(touched);
        }
        for _ in 0..200.min(self.ever.len()) {
            s.push(self.ever[self.g.usize(self.ever.len())]);
        }
        for _ in 0..100 {
            self.next_probe += 1;
            s.push(1_000_000_000_000 + self.next_probe);
        }
        s.sort();
        s.dedup();
        s
    }

    fn sample_small(&mut self, i: u64) -> Vec<u64> {
        let mut s = vec![i];
        for _ in 0..40.min(self.ever.len()) {
            s.push(self.ever[self.g.usize(self.ever.len())]);
        }
        for _ in 0..20 {
            self.next_probe += 1;
            s.push(1_000_000_000_000 + self.next_probe);
        }
        s
    }

    fn observe(&self, f: &AnyFilter, idx: &[u64]) -> (Vec<bool>, usize, bool) {
        (idx.iter().map(|&i| f.query(self.key(i))).collect(), f.len(), f.is_empty())
    }

    /// exact comparison with the model on a sample of indices
    fn check(&mut self, f: &AnyFilter, idx: &[u64], ctx: &str, after_union_ok: bool) -> bool {
        let prop = if after_union_ok { "C06" } else { self.class_prop() };
        let want_len = self.total;
        if f.len() != want_len {
            self.viol.push(v(prop, format!("{}/large/len-mismatch", self.kname), self.step, format!("after {}: len() = {}, model = {}", ctx, f.len(), want_len)));
            return false;
        }
        for &i in idx {
            let q = f.query(self.key(i));
            let has = self.model_has(i);
            if has && !q {
                self.viol.push(v("C01", format!("{}/false-negative/large", self.kname), self.step, format!("after {}: key #{} is inserted, query false (len {})", ctx, i, f.len())));
                if after_union_ok {
                    self.viol.push(v("C06", format!("{}/large/union-lost-element", self.kname), self.step, format!("after {}: key #{} is held by one of the two operands, query false", ctx, i)));
                }
                return false;
            }
            if !has && q {
                let y = self.key(i);
                if self.phantom_explained(y) {
                    self.stats.probe("genuine_fingerprint_collision");
                    continue;
                }
                self.viol.push(v(prop, format!("{}/large/phantom", self.kname), self.step,
                    format!("after {}: key #{} was never inserted (or was deleted) and collides with no held key, query true", ctx, i)));
                return false;
            }
        }
        true
    }

    /// complete check at the end: every held key is reported; cuckoo: every copy can be deleted exactly
    /// once from a clone, which is then empty
    fn final_drain(&mut self, f: &AnyFilter, any_failed: bool) {
        let held: Vec<(u64, u32)> = self.count.iter().filter(|(_, c)| **c > 0).map(|(i, c)| (*i, *c)).collect();
        let tag_props: Vec<&'static str> = if any_failed { vec!["C12", self.class_prop()] } else { vec![self.class_prop()] };
        for &(i, _) in &held {
            if !f.query(self.key(i)) {
                self.viol.push(v("C01", format!("{}/false-negative/large", self.kname), self.step, format!("final sweep: key #{} is held, query false (len {})", i, f.len())));
                if any_failed {
                    self.viol.push(v("C12", format!("{}/large/err-changed-state", self.kname), self.step, format!("final sweep after failed operations: key #{} is held, query false", i)));
                }
                return;
            }
        }
        self.stats.probe("final_full_sweep");
        if self.is_cuckoo {
            let mut g = f.fork();
            for &(i, c) in &held {
                for n in 0..c {
                    if g.delete(self.key(i)) != Some(true) {
                        for p in &tag_props {
                            self.viol.push(v(p, format!("{}/large/multiplicity-mismatch", self.kname), self.step, format!("final drain: copy {} of {} of key #{} cannot be deleted", n + 1, c, i)));
                        }
                        return;
                    }
                }
            }
            if !g.is_empty() || g.len() != 0 {
                for p in &tag_props {
                    self.viol.push(v(p, format!("{}/large/multiplicity-mismatch", self.kname), self.step, format!("final drain: every held copy deleted, len() = {}", g.len())));
                }
                return;
            }
            for &(i, _) in held.iter().take(2000) {
                if g.query(self.key(i)) {
                    for p in &tag_props {
                        self.viol.push(v(p, format!("{}/large/multiplicity-mismatch", self.kname), self.step, format!("final drain: key #{} still reported after all its copies were deleted", i)));
                    }
                    return;
                }
            }
            self.stats.probe("final_drain");
        }
    }

    fn body(&mut self) {
        let case = self.case;
        let cap = case.kind.capacity();
        let mut any_failed = false;
        self.stats.sig(if self.is_cuckoo { 2 } else { 3 });
        self.stats.sig(cap as u64);
        let mut f = AnyFilter::build(&case.kind, case.hasher, case.rng_seed, &[]);
        let bucketsize = if let FKind::Cuckoo { bucketsize, .. } = case.kind { bucketsize } else { 0 };
        for (si, op) in case.ops.iter().enumerate() {
            self.step = si + 1;
            match op {
                BigOp::Insert { from, to } => {
                    let mut touched = vec![];
                    let mut fails = 0u32;
                    for i in *from..*to {
                        let k = self.key(i);
                        let known = self.model_has(i);
                        // near capacity a failure is likely: remember a sample to compare on Err
                        let near_full = self.total * 10 >= cap * 8;
                        let before = if near_full && (fails < 40) {
                            let idx = self.sample_small(i);
                            Some((self.observe(&f, &idx), idx))
                        } else {
                            None
                        };
                        let res = f.insert(k);
                        self.stats.steps += 1;
                        match res {
                            Ok(b) => {
                                if self.is_cuckoo {
                                    if !b {
                                        self.viol.push(v("C14", "cuckoo/insert/ok-false".into(), self.step, format!("insert of key #{} returned Ok(false)", i)));
                                        return;
                                    }
                                    *self.count.entry(i).or_insert(0) += 1;
                                    self.total += 1;
                                } else {
                                    if b == known {
                                        self.viol.push(v("C13", "quotient/insert/return-mismatch".into(), self.step, format!("insert of key #{} returned Ok({}), known before: {}", i, b, known)));
                                        return;
                                    }
                                    if !known {
                                        if self.total == cap {
                                            self.viol.push(v("C13", "quotient/insert/ok-when-full".into(), self.step, format!("insert of a new key returned Ok with len() = 2^q = {}", cap)));
                                            return;
                                        }
                                        self.count.insert(i, 1);
                                        self.total += 1;
                                    }
                                }
                                if !known {
                                    self.ever.push(i);
                                }
                                touched.push(i);
                            }
                            Err(()) => {
                                fails += 1;
                                any_failed = true;
                                self.stats.fault("full_insert");
                                if self.is_cuckoo {
                                    if self.total < bucketsize {
                                        self.viol.push(v("C14", "cuckoo/insert/err-below-bucketsize".into(), self.step, "insert failed in a nearly empty filter".into()));
                                        return;
                                    }
                                } else if known || self.total != cap {
                                    self.viol.push(v("C13", "quotient/insert/err-not-full".into(), self.step, format!("insert of key #{} returned Err: known = {}, len = {}, capacity = {}", i, known, self.total, cap)));
                                    return;
                                }
                                if let Some((b4, idx)) = before {
                                    let now = self.observe(&f, &idx);
                                    if now != b4 {
                                        self.viol.push(v("C12", format!("{}/insert/err-changed-state", self.kname), self.step, format!("failed insert of key #{} changed query/len/is_empty on a sample of {} keys (len {})", i, idx.len(), f.len())));
                                        return;
                                    }
                                    self.stats.probe("failed_insert_compared");
                                }
                                // a full filter keeps failing: no need to walk 500 kicks thousands of times
                                if fails >= 60 {
                                    break;
                                }
                            }
                        }
                    }
                    self.stats.sig(10 + (fails.min(3) as u64) + 4 * ((self.total * 4 / cap.max(1)) as u64));
                    let idx = self.sample(&touched);
                    if !self.check(&f, &idx, &format!("inserting keys #{}..#{}", from, to), false) {
                        return;
                    }
                    if self.total * 10 >= cap * 9 {
                        self.stats.probe("load_above_90_percent");
                    }
                }
                BigOp::Delete { from, to, step } => {
                    if !self.is_cuckoo {
                        continue;
                    }
                    let mut touched = vec![];
                    let mut i = *from;
                    while i < *to {
                        let want = self.model_has(i);
                        let got = f.delete(self.key(i)).unwrap_or(false);
                        self.stats.steps += 1;
                        if got != want {
                            self.viol.push(v("C14", "cuckoo/delete/return-mismatch".into(), self.step, format!("delete of key #{} returned {}, model holds {} copies", i, got, self.count.get(&i).copied().unwrap_or(0))));
                            return;
                        }
                        if got {
                            *self.count.get_mut(&i).unwrap() -= 1;
                            self.total -= 1;
                        }
                        touched.push(i);
                        i += (*step).max(1);
                    }
                    let idx = self.sample(&touched);
                    if !self.check(&f, &idx, &format!("deleting keys #{}..#{} step {}", from, to, step), false) {
                        return;
                    }
                }
                BigOp::Union { from, to, del_step } => {
                    let mut b = AnyFilter::build(&case.kind, case.hasher, case.rng_seed ^ 0xb, &[]);
                    let mut held: Vec<u64> = vec![];
                    for i in *from..*to {
                        if b.insert(self.key(i)).is_ok() {
                            held.push(i);
                        } else {
                            break;
                        }
                    }
                    if self.is_cuckoo && *del_step > 0 {
                        let mut kept = vec![];
                        for (n, &i) in held.iter().enumerate() {
                            if n as u64 % del_step == 0 && b.delete(self.key(i)) == Some(true) {
                                self.stats.probe("operand_with_holes");
                            } else {
                                kept.push(i);
                            }
                        }
                        held = kept;
                    }
                    let idx = self.sample(&held);
                    let b4 = self.observe(&f, &idx);
                    let bobs = self.observe(&b, &idx);
                    let res = f.union(&b);
                    self.stats.steps += 1;
                    if self.observe(&b, &idx) != bobs {
                        for p in ["C06", "C12"] {
                            self.viol.push(v(p, format!("{}/union/operand-modified", self.kname), self.step, "the argument of union answers differently after the call".into()));
                        }
                        return;
                    }
                    match res {
                        Ok(()) => {
                            self.stats.probe("union_ok");
                            self.stats.sig(30 + (held.len() as u64).min(3));
                            for &i in &held {
                                let known = self.model_has(i);
                                if self.is_cuckoo {
                                    *self.count.entry(i).or_insert(0) += 1;
                                    self.total += 1;
                                } else if !known {
                                    self.count.insert(i, 1);
                                    self.total += 1;
                                }
                                if !known {
                                    self.ever.push(i);
                                }
                            }
                            if !self.check(&f, &idx, &format!("union with a filter holding {} keys", held.len()), true) {
                                return;
                            }
                        }
                        Err(()) => {
                            self.stats.fault("full_union");
                            any_failed = true;
                            self.stats.sig(31);
                            if self.observe(&f, &idx) != b4 {
                                self.viol.push(v("C12", format!("{}/union/err-changed-state", self.kname), self.step, format!("failed union with a filter holding {} keys changed query/len/is_empty on a sample of {} keys", held.len(), idx.len())));
                                return;
                            }
                            if !self.check(&f, &idx, "a failed union", false) {
                                // deviations from the model after a failed operation belong to C12
                                for x in self.viol.iter_mut() {
                                    if x.property != "C01" {
                                        x.property = "C12";
                                        x.class = format!("{}/union/err-changed-state", self.kname);
                                    }
                                }
                                return;
                            }
                        }
                    }
                }
                BigOp::SelfUnion => {
                    if self.is_cuckoo {
                        continue;
                    }
                    let idx = self.sample(&[]);
                    let b4 = self.observe(&f, &idx);
                    let c = f.fork();
                    let res = f.union(&c);
                    self.stats.steps += 1;
                    self.stats.sig(50 + res.is_ok() as u64);
                    if res.is_err() || self.observe(&f, &idx) != b4 {
                        self.viol.push(v("C06", "quotient/merge/not-idempotent".into(), self.step, format!("union of a filter with a clone of itself returned {:?} / changed its answers (len {})", res, f.len())));
                        return;
                    }
                }
                BigOp::Clear => {
                    f.clear();
                    self.stats.fault("node_restart");
                    self.count.clear();
                    self.total = 0;
                    let idx = self.sample(&[]);
                    if !f.is_empty() || f.len() != 0 || idx.iter().any(|&i| f.query(self.key(i))) {
                        self.viol.push(v("C19", format!("{}/clear/state-mismatch", self.kname), self.step, "after clear(): not empty or still reporting keys".into()));
                        return;
                    }
                    self.ever.clear();
                }
            }
        }
        self.step = case.ops.len() + 1;
        self.final_drain(&f, any_failed);
    }
}

impl Scenario for S1L {
    type Case = BigCase;
    const NAME: &'static str = "S1L-filter-node-large";
    const RULE: &'static str = "quotient filter with 2^8..2^14 slots (profiles: a 2^13 operand that is one cluster; 2^17..2^18 slots) and a full-width fingerprint (r = 64 - q) or cuckoo filter with 2^8..2^14 slots (profiles: 2^17 buckets filled until inserts fail; buckets of 255..512 slots) and 48..64-bit fingerprints under Mix / SipHash; phases of bulk inserts up to 1.2x capacity, strided deletes, unions with a second large filter (with holes), clear; exact key-level model checked on a sample of touched, previously inserted and never inserted keys after every phase, failed operations compared before/after";

    fn generate(seed: u64, _run: u64, prop: &'static str, _tier: Tier) -> BigCase {
        let mut g = Sm::new(seed);
        let cuckoo = match prop {
            "C13" => false,
            "C14" => true,
            _ => g.chance(1, 2),
        };
        let hasher = SimHasher::new(if g.chance(1, 2) { HashMode::Sip } else { HashMode::Mix }, g.u64());
        let profile = g.below(100);
        let mut ops = vec![];
        let kind;
        if !cuckoo && profile < 8 {
            // an operand that is one cluster of more than 4096 slots, unioned into a small filter
            let q = 13;
            kind = FKind::Quotient { q, r: 64 - q };
            let cap = 1u64 << q;
            ops.push(BigOp::Insert { from: 1_000_000, to: 1_000_000 + g.range(0, 5) });
            ops.push(BigOp::Union { from: 0, to: cap - g.range(0, 3), del_step: 0 });
            ops.push(BigOp::SelfUnion);
        } else if !cuckoo && profile < 13 {
            // more than 2^16 slots: two half-loaded filters merged
            let q = g.range(17, 18) as usize;
            kind = FKind::Quotient { q, r: 64 - q };
            let cap = 1u64 << q;
            let n = cap * g.range(30, 45) / 100;
            ops.push(BigOp::Insert { from: 0, to: n });
            ops.push(BigOp::Union { from: n - g.range(0, 100), to: n + cap * g.range(20, 40) / 100, del_step: 0 });
        } else if cuckoo && profile < 6 {
            // more than 2^16 buckets and more than 2^16 slots, filled until inserts fail
            let bucketsize = 2;
            kind = FKind::Cuckoo { bucketsize, n_buckets: 1 << 17, l_fp: *g.pick(&[48usize, 64]) };
            let cap = kind.capacity() as u64;
            let n = cap * g.range(80, 90) / 100;
            ops.push(BigOp::Insert { from: 0, to: n });
            ops.push(BigOp::Union { from: n, to: n + g.range(500, 3000), del_step: g.below(3) });
            ops.push(BigOp::Insert { from: n + 3000, to: n + 3000 + cap / 4 });
        } else if cuckoo && profile < 12 {
            // very wide buckets
            let bucketsize = *g.pick(&[255usize, 256, 257, 512]);
            kind = FKind::Cuckoo { bucketsize, n_buckets: 1 << g.range(1, 3), l_fp: *g.pick(&[48usize, 56, 64]) };
            let cap = kind.capacity() as u64;
            ops.push(BigOp::Insert { from: 0, to: cap + cap / 10 });
            ops.push(BigOp::Delete { from: 0, to: cap / 2, step: g.range(1, 4) });
            ops.push(BigOp::Insert { from: 2 * cap, to: 2 * cap + cap / 2 });
        } else {
            kind = if cuckoo {
                let bucketsize = *g.pick(&[2usize, 3, 4, 8]);
                let slots_log = if g.chance(1, 5) { g.range(13, 14) } else { g.range(8, 12) };
                let nb_log = slots_log - (bucketsize as f64).log2().floor() as u64;
                FKind::Cuckoo { bucketsize, n_buckets: 1 << nb_log, l_fp: *g.pick(&[48usize, 56, 60, 63, 64]) }
            } else {
                let q = if g.chance(1, 8) { g.range(12, 14) } else { g.range(8, 11) } as usize;
                FKind::Quotient { q, r: 64 - q }
            };
            let cap = kind.capacity() as u64;
            // a quotient filter above ~95% load is one long cluster and every operation walks it:
            // only the small tables are driven to and beyond capacity
            let max_load = if cuckoo || cap <= 1024 { 120 } else { 92 };
            let mut next = 0u64;
            let mut load = 0u64; // rough count of what has been inserted, in keys
            let phases = g.range(2, 7);
            for _ in 0..phases {
                let room = (cap * max_load / 100).saturating_sub(load);
                match g.below(10) {
                    0..=4 => {
                        let n = match g.below(4) {
                            0 => g.range(1, 50),
                            1 => cap / 4,
                            2 => cap / 2 + g.below(cap / 2 + 1),
                            _ => cap + cap / 5,
                        }
                        .min(room.max(1));
                        let from = if next > 0 && g.chance(1, 5) { g.below(next) } else { next };
                        ops.push(BigOp::Insert { from, to: from + n });
                        load += n;
                        next = next.max(from + n);
                    }
                    5 | 6 => {
                        if cuckoo && next > 0 {
                            let from = g.below(next);
                            ops.push(BigOp::Delete { from, to: (from + g.range(1, cap / 2 + 1)).min(next + 20), step: g.range(1, 5) });
                        }
                    }
                    7 | 8 => {
                        let n = match g.below(3) {
                            0 => g.range(1, 30),
                            1 => cap / 8 + 1,
                            _ => cap / 2,
                        }
                        .min(room.max(1));
                        let from = if next > 0 && g.chance(1, 3) { g.below(next) } else { next };
                        ops.push(BigOp::Union { from, to: from + n, del_step: if cuckoo { g.below(4) } else { 0 } });
                        load += n;
                        next = next.max(from + n);
                    }
                    _ => {
                        ops.push(if !cuckoo && g.chance(1, 2) { BigOp::SelfUnion } else { BigOp::Clear });
                        if matches!(ops.last(), Some(BigOp::Clear)) {
                            load = 0;
                        }
                    }
                }
            }
        }
        BigCase { kind, hasher, rng_seed: g.u64(), key_seed: g.u64(), sample_seed: g.u64(), ops }
    }

    fn execute(case: &BigCase, prop: &'static str) -> Outcome {
        let mut ex = Exec {
            case,
            kname: case.kind.name(),
            stats: RunStats::default(),
            viol: vec![],
            step: 0,
            count: HashMap::new(),
            total: 0,
            ever: vec![],
            g: Sm::new(case.sample_seed),
            next_probe: 0,
            is_cuckoo: matches!(case.kind, FKind::Cuckoo { .. }),
        };
        let r = guarded(|| ex.body());
        if let Caught::LibPanic(loc, msg) = r {
            let class = format!("{}/panic/{}", ex.kname, panic_site(&loc));
            ex.viol.push(Violation { property: prop, class, step: ex.step, detail: format!("panic at {}: {}", loc, msg) });
        }
        Outcome { stats: ex.stats, violations: ex.viol.into_iter().filter(|x| x.property == prop).collect() }
    }

    fn shrink(case: &BigCase) -> Vec<BigCase> {
        let mut out = vec![];
        for ops in shrink_vec(&case.ops) {
            let mut c = case.clone();
            c.ops = ops;
            out.push(c);
        }
        // shorter ranges
        for (i, op) in case.ops.iter().enumerate() {
            let smaller = match op {
                BigOp::Insert { from, to } if to - from > 1 => Some(BigOp::Insert { from: *from, to: from + (to - from) / 2 }),
                BigOp::Union { from, to, del_step } if to - from > 1 => Some(BigOp::Union { from: *from, to: from + (to - from) / 2, del_step: *del_step }),
                BigOp::Delete { from, to, step } if to - from > 1 => Some(BigOp::Delete { from: *from, to: from + (to - from) / 2, step: *step }),
                _ => None,
            };
            if let Some(s) = smaller {
                let mut c = case.clone();
                c.ops[i] = s;
                out.push(c);
            }
        }
        // smaller table
        match case.kind {
            FKind::Quotient { q, .. } if q > 3 => {
                let mut c = case.clone();
                c.kind = FKind::Quotient { q: q - 1, r: 64 - (q - 1) };
                out.push(c);
            }
            FKind::Cuckoo { bucketsize, n_buckets, l_fp } if n_buckets > 2 => {
                let mut c = case.clone();
                c.kind = FKind::Cuckoo { bucketsize, n_buckets: n_buckets / 2, l_fp };
                out.push(c);
            }
            _ => {}
        }
        out
    }

    fn describe(case: &BigCase) -> Value {
        json!({"kind": case.kind, "hasher": case.hasher, "ops": case.ops})
    }
}
