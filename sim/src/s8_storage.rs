//! S8 — `HyperLogLog` <-> JSON bytes at rest, with corruption between write and read (C20).
//! One run = one base sketch (precision, hasher, register fill) against which a catalogue of
//! structural corruptions is enumerated, plus seeded byte-level faults.
use crate::framework::*;
use crate::hasher::{HashMode, SimHasher};
use crate::rng::Sm;
use crate::s1_filters::shrink_vec;
use pdatastructs::hyperloglog::HyperLogLog;
use serde::{Deserialize, Serialize};
use serde_json::{json, Value};

type Hll = HyperLogLog<u64, SimHasher>;

#[derive(Clone, Debug, Serialize, Deserialize, PartialEq)]
pub enum Fault {
    /// no corruption: the round trip
    None,
    /// `b` replaced by this JSON text
    BText(String),
    /// `registers` resized to this length (prefix of the original, zero padded)
    RegsLen(usize),
    /// both: a registers length that is valid for a *different* precision, with or without the matching `b`
    RegsForOtherB { other_b: usize, set_b: bool },
    /// `registers` replaced by this JSON text
    RegsText(String),
    /// one register replaced by this JSON text
    RegValue { idx: usize, text: String },
    /// `buildhasher` replaced by this JSON text
    HasherText(String),
    /// field 0 registers / 1 b / 2 buildhasher dropped
    Drop(u8),
    /// field duplicated (second copy carries `text` when given)
    Dup(u8, Option<String>),
    Unknown,
    Reorder([u8; 3]),
    /// the whole document replaced
    TopLevel(String),
    /// keep only the first `n` bytes
    Truncate(usize),
    BitFlip { pos: usize, bit: u8 },
    /// prefix of this document, suffix of a valid document of another precision
    Torn { cut: usize, other_b: usize, other_cut: usize },
    /// `b` replaced by this JSON text *and* registers resized to `len` (e.g. b = 2^32 + 4 with 16
    /// registers: consistent after truncation to a narrower integer)
    BTextWithLen { b_text: String, len: usize },
    /// the positional form `[registers, b, buildhasher]` with registers resized to `len`
    SeqDoc { b_text: String, len: usize },
    /// fields in the given order *and* registers resized to `len` (validation must not depend on
    /// the order in which the fields arrive)
    ReorderedLen { perm: [u8; 3], len: usize },
}

#[derive(Clone, Debug, Serialize, Deserialize)]
pub struct StoreCase {
    pub b: usize,
    pub hasher: SimHasher,
    /// hashes added through add_hashed to fill the registers
    pub hashes: Vec<u64>,
    /// elements added through add (exercise the hasher)
    pub keys: Vec<u64>,
    pub faults: Vec<Fault>,
}

pub struct S8;

fn v(class: String, step: usize, detail: String) -> Violation {
    Violation { property: "C20", class, step, detail }
}

pub const BOUNDARY_HASHES: [u64; 12] = [0, u64::MAX, 1, 1 << 63, (1 << 63) - 1, 0xffff, 1 << 18, (1 << 18) - 1, 1 << 4, 15, u64::MAX - 1, 0x8000_0000_0000_000f];

pub fn catalogue(b: usize, m: usize) -> Vec<Fault> {
    let mut f = vec![Fault::None];
    for t in ["-1", "0", "3", "19", "63", "64", "65", "9223372036854775808", "18446744073709551615", "18446744073709551616", "4.0", "4.5", "\"4\"", "null", "[4]", "true", "{}", "1e1"] {
        f.push(Fault::BText(t.into()));
    }
    for ob in 4..=18usize {
        if ob != b {
            f.push(Fault::BText(ob.to_string()));
        }
    }
    for p in [[0u8, 1, 2], [1, 0, 2], [2, 1, 0], [2, 0, 1], [1, 2, 0], [0, 2, 1]] {
        for l in [0usize, m - 1, m + 1, 3 * m] {
            f.push(Fault::ReorderedLen { perm: p, len: l });
        }
    }
    for l in [0usize, 1, m - 1, m + 1, m / 2, m * 2, 3 * m, 5 * m, 6 * m, 15, 16, 17, 48] {
        if l != m {
            f.push(Fault::RegsLen(l));
        }
    }
    for ob in [4usize, 5, 6, 10] {
        if ob != b {
            f.push(Fault::RegsForOtherB { other_b: ob, set_b: false });
            f.push(Fault::RegsForOtherB { other_b: ob, set_b: true });
        }
    }
    // consistent but out of range: b outside 4..=18 together with exactly 2^b registers
    for ob in [0usize, 1, 2, 3, 19] {
        f.push(Fault::RegsForOtherB { other_b: ob, set_b: true });
    }
    // values that become a legal precision when truncated to 8 / 16 / 32 / 48 / 63 bits, with the
    // registers length that matches the truncated value
    for k in [8u32, 16, 32, 48, 63] {
        for j in [4u64, 5, 18] {
            if j == 18 && k != 32 {
                continue;
            }
            f.push(Fault::BTextWithLen { b_text: ((1u128 << k) + j as u128).to_string(), len: 1usize << j });
        }
    }
    // the positional (sequence) form of the struct
    for (bt, len) in [(b.to_string(), m), ("4".to_string(), 0), ("4".to_string(), 15), ("3".to_string(), 8), ("64".to_string(), 16), ("0".to_string(), 1), ("19".to_string(), 16), (b.to_string(), m + 1)] {
        f.push(Fault::SeqDoc { b_text: bt, len });
    }
    for t in ["null", "{}", "\"abc\"", "[256]", "[-1]", "[\"x\"]", "[1.5]", "[]", "0", "[[0]]"] {
        f.push(Fault::RegsText(t.into()));
    }
    for idx in [0usize, m / 2, m - 1] {
        for t in ["255", "256", "-1", "\"7\"", "null", "1.0", "64", "65", "200"] {
            f.push(Fault::RegValue { idx, text: t.into() });
        }
    }
    for t in ["null", "{}", "4", "\"Mix\"", "{\"mode\":\"Nope\",\"seed\":1}", "{\"mode\":\"Mix\"}", "{\"mode\":\"Mix\",\"seed\":-1}", "{\"mode\":{\"Mask\":\"x\"},\"seed\":1}"] {
        f.push(Fault::HasherText(t.into()));
    }
    for i in 0..3u8 {
        f.push(Fault::Drop(i));
        f.push(Fault::Dup(i, None));
    }
    f.push(Fault::Dup(1, Some("4".into())));
    f.push(Fault::Dup(1, Some("40".into())));
    f.push(Fault::Dup(0, Some("[]".into())));
    f.push(Fault::Unknown);
    for p in [[1u8, 0, 2], [2, 1, 0], [2, 0, 1], [1, 2, 0], [0, 2, 1]] {
        f.push(Fault::Reorder(p));
    }
    for t in ["", "null", "[]", "{}", "{", "[[0],4,null]", "0", "\"HyperLogLog\"", "{\"registers\":[]}", "{\"b\":4}"] {
        f.push(Fault::TopLevel(t.into()));
    }
    f
}

fn build_doc(regs_json: &str, b_json: &str, hasher_json: &str, order: &[u8], extra: &str) -> String {
    let mut parts: Vec<String> = vec![];
    for &i in order {
        match i {
            0 => parts.push(format!("\"registers\":{}", regs_json)),
            1 => parts.push(format!("\"b\":{}", b_json)),
            2 => parts.push(format!("\"buildhasher\":{}", hasher_json)),
            _ => {}
        }
    }
    if !extra.is_empty() {
        parts.push(extra.to_string());
    }
    format!("{{{}}}", parts.join(","))
}

fn regs_to_json(r: &[u8]) -> String {
    serde_json::to_string(r).unwrap()
}

/// The corrupted bytes for one fault. `valid` is what `serde_json::to_vec` wrote.
pub fn corrupt(base: &Hll, valid: &[u8], fault: &Fault, other_valid: &dyn Fn(usize) -> Vec<u8>) -> Vec<u8> {
    let regs = base.registers();
    let rj = regs_to_json(regs);
    let bj = base.b().to_string();
    let hj = serde_json::to_string(base.buildhasher()).unwrap();
    let std = [0u8, 1, 2];
    let text = match fault {
        Fault::None => return valid.to_vec(),
        Fault::BText(t) => build_doc(&rj, t, &hj, &std, ""),
        Fault::RegsLen(l) => {
            let mut r: Vec<u8> = regs.iter().cloned().take(*l).collect();
            r.resize(*l, 0);
            build_doc(&regs_to_json(&r), &bj, &hj, &std, "")
        }
        Fault::RegsForOtherB { other_b, set_b } => {
            let l = 1usize << other_b;
            let mut r: Vec<u8> = regs.iter().cloned().take(l).collect();
            r.resize(l, 0);
            let b2 = if *set_b { other_b.to_string() } else { bj.clone() };
            build_doc(&regs_to_json(&r), &b2, &hj, &std, "")
        }
        Fault::RegsText(t) => build_doc(t, &bj, &hj, &std, ""),
        Fault::RegValue { idx, text } => {
            let mut parts: Vec<String> = regs.iter().map(|x| x.to_string()).collect();
            let i = (*idx).min(parts.len().saturating_sub(1));
            if !parts.is_empty() {
                parts[i] = text.clone();
            }
            build_doc(&format!("[{}]", parts.join(",")), &bj, &hj, &std, "")
        }
        Fault::HasherText(t) => build_doc(&rj, &bj, t, &std, ""),
        Fault::Drop(i) => {
            let order: Vec<u8> = std.iter().cloned().filter(|x| x != i).collect();
            build_doc(&rj, &bj, &hj, &order, "")
        }
        Fault::Dup(i, text) => {
            let extra = match (i, text) {
                (0, t) => format!("\"registers\":{}", t.clone().unwrap_or(rj.clone())),
                (1, t) => format!("\"b\":{}", t.clone().unwrap_or(bj.clone())),
                (_, t) => format!("\"buildhasher\":{}", t.clone().unwrap_or(hj.clone())),
            };
            build_doc(&rj, &bj, &hj, &std, &extra)
        }
        Fault::Unknown => build_doc(&rj, &bj, &hj, &std, "\"extra\":1"),
        Fault::Reorder(p) => build_doc(&rj, &bj, &hj, p, ""),
        Fault::TopLevel(t) => t.clone(),
        Fault::BTextWithLen { b_text, len } => {
            let mut r: Vec<u8> = regs.iter().cloned().take(*len).collect();
            r.resize(*len, 0);
            build_doc(&regs_to_json(&r), b_text, &hj, &std, "")
        }
        Fault::ReorderedLen { perm, len } => {
            let mut r: Vec<u8> = regs.iter().cloned().take(*len).collect();
            r.resize(*len, 0);
            build_doc(&regs_to_json(&r), &bj, &hj, perm, "")
        }
        Fault::SeqDoc { b_text, len } => {
            let mut r: Vec<u8> = regs.iter().cloned().take(*len).collect();
            r.resize(*len, 0);
            format!("[{},{},{}]", regs_to_json(&r), b_text, hj)
        }
        Fault::Truncate(n) => return valid[..(*n).min(valid.len())].to_vec(),
        Fault::BitFlip { pos, bit } => {
            let mut bytes = valid.to_vec();
            if !bytes.is_empty() {
                let p = pos % bytes.len();
                bytes[p] ^= 1 << (bit % 8);
            }
            return bytes;
        }
        Fault::Torn { cut, other_b, other_cut } => {
            let other = other_valid(*other_b);
            let c = (*cut).min(valid.len());
            let oc = (*other_cut).min(other.len());
            let mut bytes = valid[..c].to_vec();
            bytes.extend_from_slice(&other[oc..]);
            return bytes;
        }
    };
    text.into_bytes()
}

fn fault_kind(f: &Fault) -> &'static str {
    match f {
        Fault::None => "none",
        Fault::BText(_) => "store_field_range",
        Fault::RegsLen(_) | Fault::RegsForOtherB { .. } | Fault::BTextWithLen { .. } | Fault::ReorderedLen { .. } => "store_field_range",
        Fault::SeqDoc { .. } => "store_field_retype",
        Fault::RegsText(_) | Fault::RegValue { .. } | Fault::HasherText(_) => "store_field_retype",
        Fault::Drop(_) => "store_field_drop",
        Fault::Dup(..) => "store_field_dup",
        Fault::Unknown | Fault::Reorder(_) | Fault::TopLevel(_) => "store_field_retype",
        Fault::Truncate(_) => "store_truncate",
        Fault::BitFlip { .. } => "store_bitflip",
        Fault::Torn { .. } => "store_torn",
    }
}

fn fault_class(f: &Fault) -> &'static str {
    match f {
        Fault::None => "round-trip",
        Fault::BText(_) | Fault::BTextWithLen { .. } => "b-corrupted",
        Fault::SeqDoc { .. } => "positional-form",
        Fault::RegsLen(_) | Fault::RegsForOtherB { .. } | Fault::RegsText(_) | Fault::ReorderedLen { .. } => "registers-corrupted",
        Fault::RegValue { .. } => "register-value-corrupted",
        Fault::HasherText(_) => "hasher-corrupted",
        Fault::Drop(_) => "field-dropped",
        Fault::Dup(..) => "field-duplicated",
        Fault::Unknown => "unknown-field",
        Fault::Reorder(_) => "fields-reordered",
        Fault::TopLevel(_) => "document-replaced",
        Fault::Truncate(_) => "truncated",
        Fault::BitFlip { .. } => "bit-flip",
        Fault::Torn { .. } => "torn-write",
    }
}

fn build_base(b: usize, hasher: SimHasher, hashes: &[u64], keys: &[u64]) -> Hll {
    let mut h = Hll::with_hash(b, hasher);
    for &x in hashes {
        h.add_hashed(x);
    }
    for &k in keys {
        h.add(&k);
    }
    h
}

impl Scenario for S8 {
    type Case = StoreCase;
    const NAME: &'static str = "S8-storage";
    const RULE: &'static str = "one evaluation = one base sketch (precision 4..18, SimHasher mode, register fill from boundary and random hashes) against which the whole catalogue of structural corruptions (b out of range / other valid b, registers length mismatch / empty / oversized / other valid length, register values, field drop / dup / retype / reorder, replaced document) is enumerated, plus seeded truncations, bit flips and torn writes; non-trivial = at least one corruption applied";

    fn generate(seed: u64, run: u64, _prop: &'static str, _tier: Tier) -> StoreCase {
        let mut g = Sm::new(seed);
        // walk the precisions round-robin so that every one is covered whatever the run count
        let b = 4 + (run as usize % 15);
        let mode = match g.below(5) {
            0 => HashMode::Identity,
            1 => HashMode::Sip,
            2 => HashMode::Mask(g.u64() | 0xff),
            3 => HashMode::Buckets(g.range(1, 50) as u32),
            _ => HashMode::Mix,
        };
        let hasher = SimHasher::new(mode, g.u64());
        let fill = match g.below(5) {
            0 => 0,
            1 => g.range(1, 8),
            2 => g.range(8, 200),
            _ => g.range(100, 3000),
        };
        let mut hashes = vec![];
        for _ in 0..fill {
            hashes.push(if g.chance(1, 5) { *g.pick(&BOUNDARY_HASHES) } else { g.u64() });
        }
        let keys: Vec<u64> = (0..g.below(20)).map(|_| g.below(1000)).collect();
        let m = 1usize << b;
        let mut faults = catalogue(b, m);
        // byte level faults: the document length is roughly 2..4 bytes per register + ~80
        let approx_len = 3 * m + 80;
        for _ in 0..(if b <= 10 { 40 } else { 12 }) {
            faults.push(match g.below(3) {
                0 => Fault::Truncate(if g.chance(1, 3) { g.usize(60) } else { g.usize(approx_len) }),
                1 => Fault::BitFlip { pos: if g.chance(1, 3) { approx_len.saturating_sub(g.usize(70)) } else { g.usize(approx_len) }, bit: g.below(8) as u8 },
                _ => Fault::Torn { cut: g.usize(approx_len), other_b: 4 + g.usize(7), other_cut: g.usize(200) },
            });
        }
        StoreCase { b, hasher, hashes, keys, faults }
    }

    fn execute(case: &StoreCase, prop: &'static str) -> Outcome {
        let mut stats = RunStats::default();
        let mut viol: Vec<Violation> = vec![];
        stats.sig(case.b as u64);
        let base = match guarded(|| build_base(case.b, case.hasher, &case.hashes, &case.keys)) {
            Caught::Ok(b) => b,
            Caught::LibPanic(loc, msg) => {
                viol.push(v(format!("hll/panic/{}", panic_site(&loc)), 0, format!("building the sketch panicked at {}: {}", loc, msg)));
                return Outcome { stats, violations: viol.into_iter().filter(|x| x.property == prop).collect() };
            }
        };
        let valid = serde_json::to_vec(&base).expect("serialise");
        let hasher = case.hasher;
        let other_valid = move |ob: usize| -> Vec<u8> {
            let mut o = Hll::with_hash(ob.clamp(4, 18), hasher);
            o.add_hashed(0xdead_beef_0123_4567);
            serde_json::to_vec(&o).unwrap()
        };
        for (fi, fault) in case.faults.iter().enumerate() {
            let step = fi + 1;
            let bytes = corrupt(&base, &valid, fault, &other_valid);
            stats.steps += 1;
            if *fault != Fault::None {
                stats.fault(fault_kind(fault));
            }
            let fc = fault_class(fault);
            let res = guarded(|| serde_json::from_slice::<Hll>(&bytes));
            let shown = || String::from_utf8_lossy(&bytes[..bytes.len().min(120)]).to_string();
            match res {
                Caught::LibPanic(loc, msg) => {
                    viol.push(v(format!("hll/deserialize/panic/{}", fc), step, format!("from_slice panicked at {}: {} on {:?}: {}...", loc, msg, fault, shown())));
                }
                Caught::Ok(Err(_)) => {
                    stats.sig(1);
                    stats.probe("rejected");
                    if *fault == Fault::None {
                        viol.push(v("hll/round-trip/rejected".into(), step, "deserialising an untouched serialisation failed".into()));
                    }
                }
                Caught::Ok(Ok(mut de)) => {
                    stats.sig(2);
                    stats.probe("accepted");
                    let (b2, m2) = (de.b(), de.m());
                    if !(4..=18).contains(&b2) {
                        viol.push(v(format!("hll/deserialize/accepted-invalid-b/{}", fc), step, format!("{:?}: accepted a sketch with b = {} ({} registers) from {}...", fault, b2, m2, shown())));
                        continue;
                    }
                    if m2 != (1usize << b2) {
                        viol.push(v(format!("hll/deserialize/accepted-invalid-registers-length/{}", fc), step, format!("{:?}: accepted a sketch with b = {} and {} registers from {}...", fault, b2, m2, shown())));
                        continue;
                    }
                    if *fault == Fault::None {
                        // the round trip proper
                        if de != base || de.b() != base.b() || de.registers() != base.registers() || de.count() != base.count() || de.buildhasher() != base.buildhasher() {
                            viol.push(v("hll/round-trip/not-equal".into(), step, format!("deserialised sketch differs: b {} vs {}, count {} vs {}", de.b(), base.b(), de.count(), base.count())));
                            continue;
                        }
                        // same reaction to further adds and merges
                        let mut orig = base.clone();
                        let mut third = Hll::with_hash(case.b, case.hasher);
                        for (i, &h) in BOUNDARY_HASHES.iter().enumerate() {
                            orig.add_hashed(h);
                            de.add_hashed(h);
                            orig.add(&(i as u64 * 77));
                            de.add(&(i as u64 * 77));
                            third.add(&(i as u64 * 1313 + 5));
                        }
                        orig.merge(&third);
                        de.merge(&third);
                        if orig != de || orig.count() != de.count() {
                            viol.push(v("hll/round-trip/diverges-after-continuation".into(), step, "original and deserialised sketch differ after identical adds and merges".into()));
                        }
                        stats.probe("round_trip_ok");
                        continue;
                    }
                    // an accepted document must be usable without panics
                    let hb = *de.buildhasher();
                    let r2 = guarded(|| {
                        let c0 = de.count();
                        for &h in BOUNDARY_HASHES.iter() {
                            de.add_hashed(h);
                        }
                        de.add(&12345u64);
                        let c1 = de.count();
                        let mut fresh = Hll::with_hash(b2, hb);
                        fresh.add(&1u64);
                        de.merge(&fresh);
                        let mut fresh2 = Hll::with_hash(b2, hb);
                        fresh2.merge(&de);
                        let c2 = fresh2.count();
                        de.clear();
                        (c0, c1, c2, de.is_empty())
                    });
                    if let Caught::LibPanic(loc, msg) = r2 {
                        viol.push(v(format!("hll/deserialize/accepted-then-panic/{}", fc), step, format!("{:?}: accepted sketch (b = {}) panicked in add/count/merge at {}: {}", fault, b2, loc, msg)));
                    }
                }
            }
        }
        Outcome { stats, violations: viol.into_iter().filter(|x| x.property == prop).collect() }
    }

    fn shrink(case: &StoreCase) -> Vec<StoreCase> {
        let mut out = vec![];
        for f in shrink_vec(&case.faults).into_iter().take(200) {
            if !f.is_empty() {
                let mut c = case.clone();
                c.faults = f;
                out.push(c);
            }
        }
        for h in shrink_vec(&case.hashes).into_iter().take(60) {
            let mut c = case.clone();
            c.hashes = h;
            out.push(c);
        }
        if !case.keys.is_empty() {
            let mut c = case.clone();
            c.keys.clear();
            out.push(c);
        }
        if case.b > 4 {
            let mut c = case.clone();
            c.b = 4;
            out.push(c);
        }
        if case.hasher.mode != HashMode::Mix {
            let mut c = case.clone();
            c.hasher = SimHasher::new(HashMode::Mix, 1);
            out.push(c);
        }
        out
    }

    fn describe(case: &StoreCase) -> Value {
        json!({"b": case.b, "hasher": case.hasher, "n_hashes": case.hashes.len(), "n_keys": case.keys.len(),
               "n_faults": case.faults.len(), "first_faults": case.faults.iter().take(12).collect::<Vec<_>>()})
    }
}
