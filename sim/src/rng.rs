//! The two generators of the simulator.
//!
//! * [`Sm`]: SplitMix64, used by the *harness* for every generated choice
//!   (configuration, operations, network schedule, fault positions).
//! * [`SimRng`]: the generator handed to the code under test through its
//!   `R: rand::Rng` seam. Word `i` of its stream is `tape[i]` when the tape has
//!   an entry for `i`, otherwise `mix(seed, salt, i)`. The position counter is
//!   observable by the harness (words consumed by an operation = black-box
//!   "number of kicks"), and `clone()` deep-copies it so that a clone of a
//!   structure continues with the same stream without disturbing the original.
use pdatastructs::rand::{Error, RngCore};
use std::cell::Cell;
use std::collections::BTreeMap;
use std::rc::Rc;

#[inline]
pub fn mix64(mut z: u64) -> u64 {
    z = z.wrapping_add(0x9E37_79B9_7F4A_7C15);
    z = (z ^ (z >> 30)).wrapping_mul(0xBF58_476D_1CE4_E5B9);
    z = (z ^ (z >> 27)).wrapping_mul(0x94D0_49BB_1331_11EB);
    z ^ (z >> 31)
}

#[inline]
pub fn mix2(a: u64, b: u64) -> u64 {
    mix64(mix64(a) ^ b.wrapping_mul(0xD6E8_FEB8_6659_FD93))
}

/// FNV-like running hash used for run signatures (order dependent).
#[inline]
pub fn sig_push(sig: &mut u64, v: u64) {
    *sig = mix64(*sig ^ v.wrapping_mul(0x1000_0000_01B3));
}

/// Harness-side PRNG.
#[derive(Clone, Debug)]
pub struct Sm(pub u64);

impl Sm {
    pub fn new(seed: u64) -> Self {
        Sm(mix64(seed ^ 0xA076_1D64_78BD_642F))
    }
    #[inline]
    pub fn u64(&mut self) -> u64 {
        self.0 = self.0.wrapping_add(0x9E37_79B9_7F4A_7C15);
        let mut z = self.0;
        z = (z ^ (z >> 30)).wrapping_mul(0xBF58_476D_1CE4_E5B9);
        z = (z ^ (z >> 27)).wrapping_mul(0x94D0_49BB_1331_11EB);
        z ^ (z >> 31)
    }
    /// Uniform in `0..n` (n > 0); the tiny modulo bias is irrelevant for workload generation.
    #[inline]
    pub fn below(&mut self, n: u64) -> u64 {
        debug_assert!(n > 0);
        ((self.u64() as u128 * n as u128) >> 64) as u64
    }
    #[inline]
    pub fn usize(&mut self, n: usize) -> usize {
        self.below(n as u64) as usize
    }
    /// Uniform in `lo..=hi`.
    #[inline]
    pub fn range(&mut self, lo: u64, hi: u64) -> u64 {
        lo + self.below(hi - lo + 1)
    }
    #[inline]
    pub fn chance(&mut self, num: u64, den: u64) -> bool {
        self.below(den) < num
    }
    /// Uniform in [0, 1).
    #[inline]
    pub fn f64(&mut self) -> f64 {
        (self.u64() >> 11) as f64 / (1u64 << 53) as f64
    }
    pub fn pick<'a, T>(&mut self, xs: &'a [T]) -> &'a T {
        &xs[self.usize(xs.len())]
    }
    /// Standard normal (Box–Muller).
    pub fn normal(&mut self) -> f64 {
        let u1 = 1.0 - self.f64();
        let u2 = self.f64();
        (-2.0 * u1.ln()).sqrt() * (2.0 * std::f64::consts::PI * u2).cos()
    }
    pub fn shuffle<T>(&mut self, xs: &mut [T]) {
        for i in (1..xs.len()).rev() {
            let j = self.usize(i + 1);
            xs.swap(i, j);
        }
    }
    pub fn fork(&mut self) -> Sm {
        Sm::new(self.u64())
    }
}

/// Words that sit on the edges of `rand`'s sampling routines.
pub const EXTREME_WORDS: [u64; 10] = [
    0,
    u64::MAX,
    1 << 63,
    1,
    u32::MAX as u64,
    (u32::MAX as u64) << 32,
    1 << 32,
    (1 << 63) - 1,
    0x0000_0FFF, // smallest mantissa words for the f64 sampler (it keeps the top 52 bits)
    u64::MAX - 1,
];

/// The injected RNG.
pub struct SimRng {
    seed: u64,
    pos: Rc<Cell<u64>>,
    salt: Rc<Cell<u64>>,
    tape: Rc<BTreeMap<u64, u64>>,
}

/// Harness-side handle on a `SimRng` living inside a structure.
#[derive(Clone)]
pub struct RngProbe {
    pos: Rc<Cell<u64>>,
    salt: Rc<Cell<u64>>,
}

impl RngProbe {
    pub fn pos(&self) -> u64 {
        self.pos.get()
    }
    /// Changes the untaped part of the stream for *every* clone sharing this salt cell. Used to
    /// make clones of one state take different eviction walks.
    pub fn set_salt(&self, s: u64) {
        self.salt.set(s)
    }
}

impl SimRng {
    pub fn new(seed: u64, tape: &[(u64, u64)]) -> (Self, RngProbe) {
        Self::new_at(seed, tape, 0)
    }
    pub fn new_at(seed: u64, tape: &[(u64, u64)], pos: u64) -> (Self, RngProbe) {
        let pos = Rc::new(Cell::new(pos));
        let salt = Rc::new(Cell::new(0));
        let probe = RngProbe { pos: Rc::clone(&pos), salt: Rc::clone(&salt) };
        (
            SimRng { seed, pos, salt, tape: Rc::new(tape.iter().cloned().collect()) },
            probe,
        )
    }
    /// Probe of this particular instance (e.g. of a clone).
    pub fn probe(&self) -> RngProbe {
        RngProbe { pos: Rc::clone(&self.pos), salt: Rc::clone(&self.salt) }
    }
    #[inline]
    fn word(&mut self) -> u64 {
        let i = self.pos.get();
        self.pos.set(i + 1);
        if !self.tape.is_empty() {
            if let Some(w) = self.tape.get(&i) {
                return *w;
            }
        }
        mix2(self.seed ^ self.salt.get().wrapping_mul(0xA24B_AED4_963E_E407), i)
    }
}

thread_local! {
    static LAST_CLONE: std::cell::RefCell<Option<RngProbe>> = const { std::cell::RefCell::new(None) };
}

/// Probe of the `SimRng` most recently produced by `Clone::clone` on this thread. The structures
/// keep their RNG private, so this is how the harness reaches the generator inside a clone.
pub fn take_last_clone_probe() -> Option<RngProbe> {
    LAST_CLONE.with(|c| c.borrow_mut().take())
}

impl Clone for SimRng {
    fn clone(&self) -> Self {
        let r = SimRng {
            seed: self.seed,
            pos: Rc::new(Cell::new(self.pos.get())),
            salt: Rc::clone(&self.salt),
            tape: Rc::clone(&self.tape),
        };
        let p = r.probe();
        LAST_CLONE.with(|c| *c.borrow_mut() = Some(p));
        r
    }
}

impl RngCore for SimRng {
    #[inline]
    fn next_u32(&mut self) -> u32 {
        (self.word() >> 32) as u32
    }
    #[inline]
    fn next_u64(&mut self) -> u64 {
        self.word()
    }
    fn fill_bytes(&mut self, dest: &mut [u8]) {
        for chunk in dest.chunks_mut(8) {
            let w = self.word().to_le_bytes();
            chunk.copy_from_slice(&w[..chunk.len()]);
        }
    }
    fn try_fill_bytes(&mut self, dest: &mut [u8]) -> Result<(), Error> {
        self.fill_bytes(dest);
        Ok(())
    }
}
