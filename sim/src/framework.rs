//! Batch runner, minimiser, replay files, known findings and evidence.
use crate::rng::mix2;
use serde::de::DeserializeOwned;
use serde::{Deserialize, Serialize};
use serde_json::{json, Value};
use std::cell::RefCell;
use std::collections::{BTreeMap, HashSet};
use std::panic::{catch_unwind, AssertUnwindSafe};
use std::sync::atomic::{AtomicU64, AtomicUsize, Ordering};
use std::sync::Mutex;
use std::time::Instant;

#[derive(Clone, Copy, Debug, PartialEq, Eq)]
pub enum Tier {
    Quick,
    Thorough,
}

impl Tier {
    pub fn name(self) -> &'static str {
        match self {
            Tier::Quick => "quick",
            Tier::Thorough => "thorough",
        }
    }
}

#[derive(Clone, Debug)]
pub struct Violation {
    pub property: &'static str,
    /// Stable signature: structure / operation / violation class. Known findings match on it.
    pub class: String,
    pub step: usize,
    pub detail: String,
}

pub type Counters = BTreeMap<&'static str, u64>;

#[derive(Default, Debug)]
pub struct RunStats {
    /// operations checked against the model
    pub steps: u64,
    /// fault kinds that *fired* in this run
    pub faults: Counters,
    /// "this rare condition was hit" probes
    pub probes: Counters,
    /// hash of (configuration class, sequence of (op kind, outcome class))
    pub sig: u64,
}

impl RunStats {
    pub fn fault(&mut self, k: &'static str) {
        *self.faults.entry(k).or_insert(0) += 1;
    }
    pub fn fault_n(&mut self, k: &'static str, n: u64) {
        if n > 0 {
            *self.faults.entry(k).or_insert(0) += n;
        }
    }
    pub fn probe(&mut self, k: &'static str) {
        *self.probes.entry(k).or_insert(0) += 1;
    }
    pub fn probe_n(&mut self, k: &'static str, n: u64) {
        if n > 0 {
            *self.probes.entry(k).or_insert(0) += n;
        }
    }
    pub fn sig(&mut self, v: u64) {
        crate::rng::sig_push(&mut self.sig, v)
    }
}

pub struct Outcome {
    pub stats: RunStats,
    pub violations: Vec<Violation>,
}

pub trait Scenario {
    type Case: Serialize + DeserializeOwned + Clone + Send + 'static;
    const NAME: &'static str;
    /// what the evidence says about how cases are generated and what counts as non-trivial
    const RULE: &'static str;
    fn generate(seed: u64, run: u64, prop: &'static str, tier: Tier) -> Self::Case;
    /// Executes the case against the real library. Reports only violations tagged `prop`
    /// (the scenario may evaluate more oracles than that).
    fn execute(case: &Self::Case, prop: &'static str) -> Outcome;
    /// Simpler variants of the case, most aggressive first.
    fn shrink(case: &Self::Case) -> Vec<Self::Case>;
    /// Short human-readable rendering for evidence samples.
    fn describe(case: &Self::Case) -> Value {
        let v = serde_json::to_value(case).unwrap();
        truncate_value(v, 24)
    }
}

pub fn truncate_value(v: Value, max_items: usize) -> Value {
    match v {
        Value::Array(a) => {
            let n = a.len();
            let mut out: Vec<Value> =
                a.into_iter().take(max_items).map(|x| truncate_value(x, max_items)).collect();
            if n > max_items {
                out.push(json!(format!("... {} more", n - max_items)));
            }
            Value::Array(out)
        }
        Value::Object(o) => {
            Value::Object(o.into_iter().map(|(k, x)| (k, truncate_value(x, max_items))).collect())
        }
        x => x,
    }
}

// ---------------------------------------------------------------------------
// panic capture

thread_local! {
    static LAST_PANIC: RefCell<Option<(String, String)>> = const { RefCell::new(None) };
}

pub fn install_panic_hook() {
    std::panic::set_hook(Box::new(|info| {
        let loc = info
            .location()
            .map(|l| format!("{}:{}", l.file(), l.line()))
            .unwrap_or_else(|| "?".into());
        let msg = if let Some(s) = info.payload().downcast_ref::<&str>() {
            s.to_string()
        } else if let Some(s) = info.payload().downcast_ref::<String>() {
            s.clone()
        } else {
            "?".into()
        };
        LAST_PANIC.with(|p| *p.borrow_mut() = Some((loc, msg)));
    }));
}

/// Result of running library code under `catch_unwind`.
pub enum Caught<T> {
    Ok(T),
    /// (location, message) of a panic raised outside the simulator's own sources
    LibPanic(String, String),
}

/// Runs `f`; a panic whose location is inside the simulator crate is a harness bug and is
/// re-raised (the process then exits with code 2), any other panic is returned to the oracle.
pub fn guarded<T>(f: impl FnOnce() -> T) -> Caught<T> {
    match catch_unwind(AssertUnwindSafe(f)) {
        Ok(v) => Caught::Ok(v),
        Err(e) => {
            let (loc, msg) =
                LAST_PANIC.with(|p| p.borrow_mut().take()).unwrap_or(("?".into(), "?".into()));
            if loc.contains("sim/src/") || loc.starts_with("src/") {
                eprintln!("HARNESS PANIC at {}: {}", loc, msg);
                std::panic::resume_unwind(e);
            }
            Caught::LibPanic(loc, msg)
        }
    }
}

/// Strips line numbers and directories so that a panic signature survives unrelated edits.
pub fn panic_site(loc: &str) -> String {
    let file = loc.rsplit('/').next().unwrap_or(loc);
    file.split(':').next().unwrap_or(file).to_string()
}

// ---------------------------------------------------------------------------
// known findings

#[derive(Deserialize, Debug, Default)]
pub struct KnownFindings {
    #[serde(default)]
    pub findings: Vec<Finding>,
    #[serde(default)]
    pub fixed: Vec<Value>,
}

#[derive(Deserialize, Debug)]
pub struct Finding {
    pub property: String,
    pub signature: String,
    pub what: String,
}

impl KnownFindings {
    pub fn load(verif_dir: &str) -> Self {
        let p = format!("{}/known_findings.json", verif_dir);
        match std::fs::read_to_string(&p) {
            Ok(s) => serde_json::from_str(&s).unwrap_or_else(|e| {
                eprintln!("HARNESS ERROR: cannot parse {}: {}", p, e);
                std::process::exit(2)
            }),
            Err(_) => KnownFindings::default(),
        }
    }
    pub fn matches(&self, prop: &str, class: &str) -> Option<&Finding> {
        self.findings.iter().find(|f| f.property == prop && f.signature == class)
    }
}

// ---------------------------------------------------------------------------
// batch context: accumulates everything one check does

pub struct FoundViolation {
    pub scenario: &'static str,
    pub run: u64,
    pub seed: u64,
    pub violation: Violation,
    pub replay_path: String,
    pub minimised: Value,
    pub shrink_execs: u64,
}

pub struct CheckCtx {
    pub prop: &'static str,
    pub tier: Tier,
    pub master_seed: u64,
    pub workers: usize,
    pub verif_dir: String,
    pub level: &'static str,
    pub started: Instant,
    pub evaluations: u64,
    pub steps: u64,
    pub faults: Counters,
    pub probes: Counters,
    pub sigs: HashSet<u64>,
    pub nontrivial_sigs: HashSet<u64>,
    pub samples: Vec<Value>,
    pub rules: Vec<String>,
    pub per_scenario: Vec<Value>,
    pub found: Vec<FoundViolation>,
    pub notes: Vec<String>,
    pub assumptions: Vec<String>,
    pub extra: BTreeMap<String, Value>,
    pub required_probes: Vec<&'static str>,
    pub log_hash: u64,
}

pub fn run_seed(master: u64, prop: &str, scenario: &str, run: u64) -> u64 {
    let mut h = master;
    for b in prop.bytes().chain(scenario.bytes()) {
        h = mix2(h, b as u64);
    }
    mix2(h, run)
}

impl CheckCtx {
    pub fn new(prop: &'static str, tier: Tier, master_seed: u64, workers: usize, verif_dir: String, level: &'static str) -> Self {
        CheckCtx {
            prop,
            tier,
            master_seed,
            workers,
            verif_dir,
            level,
            started: Instant::now(),
            evaluations: 0,
            steps: 0,
            faults: Counters::new(),
            probes: Counters::new(),
            sigs: HashSet::new(),
            nontrivial_sigs: HashSet::new(),
            samples: vec![],
            rules: vec![],
            per_scenario: vec![],
            found: vec![],
            notes: vec![],
            assumptions: vec![],
            extra: BTreeMap::new(),
            required_probes: vec![],
            log_hash: 0,
        }
    }

    /// Runs `runs` independent seeded executions of scenario `S` on `self.workers` threads.
    /// Everything that is accumulated is order-independent, so the result does not depend on
    /// the worker count.
    pub fn run<S: Scenario>(&mut self, runs: u64) {
        // development aid: PDSIM_ONLY=<substring> restricts a check to the scenarios whose name matches
        if let Ok(only) = std::env::var("PDSIM_ONLY") {
            if !S::NAME.contains(&only) {
                return;
            }
        }
        let t0 = Instant::now();
        let next = AtomicU64::new(0);
        let prop = self.prop;
        let tier = self.tier;
        let master = self.master_seed;
        struct Acc {
            steps: u64,
            faults: Counters,
            probes: Counters,
            sigs: HashSet<u64>,
            nontrivial: HashSet<u64>,
            // class -> (run, seed, violation)
            viol: BTreeMap<String, (u64, u64, Violation)>,
            nviol: u64,
            log_xor: u64,
            done_runs: u64,
        }
        impl Acc {
            fn new() -> Self {
                Acc { steps: 0, faults: Counters::new(), probes: Counters::new(), sigs: HashSet::new(), nontrivial: HashSet::new(), viol: BTreeMap::new(), nviol: 0, log_xor: 0, done_runs: 0 }
            }
            fn merge_into(self, t: &mut Acc) {
                t.steps += self.steps;
                for (k, v) in self.faults {
                    *t.faults.entry(k).or_insert(0) += v;
                }
                for (k, v) in self.probes {
                    *t.probes.entry(k).or_insert(0) += v;
                }
                t.sigs.extend(self.sigs);
                t.nontrivial.extend(self.nontrivial);
                t.nviol += self.nviol;
                t.log_xor ^= self.log_xor;
                t.done_runs += self.done_runs;
                for (c, x) in self.viol {
                    match t.viol.get(&c) {
                        Some(old) if old.0 <= x.0 => {}
                        _ => {
                            t.viol.insert(c, x);
                        }
                    }
                }
            }
        }
        let total = Mutex::new(Acc::new());
        let chunk: u64 = (runs / (self.workers.max(1) as u64 * 8)).clamp(1, 64);
        let nworkers = self.workers.max(1);
        // watchdog state: which run every worker is executing and since when (ms since t0)
        let inflight: Vec<(AtomicU64, AtomicU64)> = (0..nworkers).map(|_| (AtomicU64::new(0), AtomicU64::new(0))).collect();
        let tids: Vec<AtomicU64> = (0..nworkers).map(|_| AtomicU64::new(0)).collect();
        let finished = AtomicUsize::new(0);
        let limit_ms = run_timeout_ms();
        let verif_dir = self.verif_dir.clone();
        let (prior_eval, prior_nontrivial) = (self.evaluations, self.nontrivial_sigs.len());
        let level = self.level;
        let started = self.started;
        std::thread::scope(|sc| {
            // a run that does not return is reported like any other violation: the library loops forever
            sc.spawn(|| {
              // per worker: the run last seen in flight and the thread's CPU time when it was first seen
              let mut seen: Vec<(u64, Option<u64>)> = vec![(0, None); nworkers];
              loop {
                std::thread::sleep(std::time::Duration::from_millis(200));
                if finished.load(Ordering::SeqCst) >= nworkers {
                    break;
                }
                let now = t0.elapsed().as_millis() as u64;
                for (w, slot) in inflight.iter().enumerate() {
                    let r = slot.0.load(Ordering::SeqCst);
                    let since = slot.1.load(Ordering::SeqCst);
                    if r == 0 {
                        seen[w] = (0, None);
                        continue;
                    }
                    let wall = now.saturating_sub(since);
                    // only runs that are already slow cost a /proc read
                    if wall < 1000.min(limit_ms / 2) {
                        continue;
                    }
                    let tid = tids[w].load(Ordering::SeqCst);
                    if seen[w].0 != r {
                        seen[w] = (r, thread_cpu_ms(tid));
                    }
                    let cpu = match (seen[w].1, thread_cpu_ms(tid)) {
                        (Some(a), Some(b)) => Some(b.saturating_sub(a) + 1000.min(limit_ms / 2)),
                        _ => None,
                    };
                    if over_limit(wall, cpu, limit_ms) {
                        let run = r - 1;
                        let seed = run_seed(master, prop, S::NAME, run);
                        let case = S::generate(seed, run, prop, tier);
                        let v = Violation { property: prop, class: format!("{}/hang", S::NAME), step: 0,
                            detail: format!("the run did not return within {} s of CPU time: an operation of the library does not terminate", limit_ms / 1000) };
                        let file = write_replay::<S>(&verif_dir, prop, master, run, seed, &case, &v);
                        println!("VIOLATION property={} replay={}", prop, file);
                        println!("  class={} scenario={} run={} :: {}", v.class, S::NAME, run, v.detail);
                        let (done_runs, nontriv) = {
                            let t = total.lock().unwrap();
                            (t.done_runs, t.nontrivial.len())
                        };
                        let wall = started.elapsed().as_secs_f64();
                        let ev = json!({
                            "property_id": prop, "tier": tier.name(), "seed": master, "level": level,
                            "coverage": {
                                "evaluations": prior_eval + done_runs + 1,
                                "distinct_nontrivial": prior_nontrivial + nontriv,
                                "rule": format!("{}: {}", S::NAME, S::RULE),
                                "samples": [{"scenario": S::NAME, "run": run, "seed": seed, "case": S::describe(&case), "outcome": "did not terminate"}],
                                "aborted": "a run exceeded the per-run time limit; the batch was abandoned and the run is reported as a violation",
                            },
                            "wall_s": round3(wall), "violations": 1,
                        });
                        let _ = std::fs::create_dir_all(format!("{}/evidence", verif_dir));
                        let _ = std::fs::write(format!("{}/evidence/{}.json", verif_dir, prop), serde_json::to_string_pretty(&ev).unwrap());
                        println!("{} {} seed={} -> VIOLATED (non-terminating run)", prop, tier.name(), master);
                        std::process::exit(1);
                    }
                }
              }
            });
            for w in 0..nworkers {
                let inflight = &inflight;
                let tids = &tids;
                let finished = &finished;
                let total = &total;
                let next = &next;
                sc.spawn(move || {
                    tids[w].store(current_tid(), Ordering::SeqCst);
                    let mut acc = Acc::new();
                    loop {
                        let start = next.fetch_add(chunk, Ordering::Relaxed);
                        if start >= runs {
                            break;
                        }
                        // hand the finished chunk over, so that the watchdog can report real numbers
                        if acc.done_runs > 0 {
                            inflight[w].0.store(0, Ordering::SeqCst);
                            std::mem::replace(&mut acc, Acc::new()).merge_into(&mut total.lock().unwrap());
                        }
                        for run in start..(start + chunk).min(runs) {
                            inflight[w].1.store(t0.elapsed().as_millis() as u64, Ordering::SeqCst);
                            inflight[w].0.store(run + 1, Ordering::SeqCst);
                            let seed = run_seed(master, prop, S::NAME, run);
                            journal_write(w, scenario_tag(S::NAME), run, seed);
                            // a panic that escapes `execute` is a bug of the simulator: harness error, no verdict
                            let out = match catch_unwind(AssertUnwindSafe(|| {
                                let case = S::generate(seed, run, prop, tier);
                                S::execute(&case, prop)
                            })) {
                                Ok(o) => o,
                                Err(_) => {
                                    eprintln!("HARNESS ERROR: the simulator panicked in scenario {} run {} (seed {}); no verdict", S::NAME, run, seed);
                                    println!("HARNESS ERROR: the simulator panicked in scenario {} run {}; no verdict for {}", S::NAME, run, prop);
                                    std::process::exit(2);
                                }
                            };
                            acc.done_runs += 1;
                            acc.steps += out.stats.steps;
                            for (k, v) in &out.stats.faults {
                                *acc.faults.entry(k).or_insert(0) += v;
                            }
                            for (k, v) in &out.stats.probes {
                                *acc.probes.entry(k).or_insert(0) += v;
                            }
                            acc.sigs.insert(out.stats.sig);
                            if !out.stats.faults.is_empty() {
                                acc.nontrivial.insert(out.stats.sig);
                            }
                            // event-log hash of this run: signature, steps and verdict
                            let mut lh = mix2(out.stats.sig, out.stats.steps);
                            for v in &out.violations {
                                for b in v.class.bytes() {
                                    lh = mix2(lh, b as u64);
                                }
                                lh = mix2(lh, v.step as u64);
                            }
                            acc.log_xor ^= mix2(lh, run);
                            for v in out.violations {
                                acc.nviol += 1;
                                let e = acc.viol.entry(v.class.clone());
                                match e {
                                    std::collections::btree_map::Entry::Vacant(x) => {
                                        x.insert((run, seed, v));
                                    }
                                    std::collections::btree_map::Entry::Occupied(mut x) => {
                                        if x.get().0 > run {
                                            x.insert((run, seed, v));
                                        }
                                    }
                                }
                            }
                        }
                    }
                    acc.merge_into(&mut total.lock().unwrap());
                    journal_write(w, 0, 0, 0);
                    inflight[w].0.store(0, Ordering::SeqCst);
                    finished.fetch_add(1, Ordering::SeqCst);
                });
            }
        });
        let acc = total.into_inner().unwrap();
        let wall = t0.elapsed().as_secs_f64();
        self.evaluations += runs;
        self.steps += acc.steps;
        for (k, v) in &acc.faults {
            *self.faults.entry(k).or_insert(0) += v;
        }
        for (k, v) in &acc.probes {
            *self.probes.entry(k).or_insert(0) += v;
        }
        let ds = acc.sigs.len();
        let dn = acc.nontrivial.len();
        // keep signatures of different scenarios apart
        let tag = run_seed(0, "", S::NAME, 0);
        self.sigs.extend(acc.sigs.iter().map(|s| s ^ tag));
        self.nontrivial_sigs.extend(acc.nontrivial.iter().map(|s| s ^ tag));
        self.log_hash = mix2(self.log_hash, acc.log_xor);
        if !self.rules.iter().any(|r| r.starts_with(S::NAME)) {
            self.rules.push(format!("{}: {}", S::NAME, S::RULE));
        }
        // samples: the first two runs of every scenario, written out
        for run in 0..runs.min(2) {
            let seed = run_seed(master, prop, S::NAME, run);
            let case = S::generate(seed, run, prop, tier);
            let out = S::execute(&case, prop);
            self.samples.push(json!({
                "scenario": S::NAME, "run": run, "seed": seed,
                "case": S::describe(&case),
                "steps_checked": out.stats.steps,
                "faults_fired": out.stats.faults,
                "violations": out.violations.len(),
            }));
        }
        self.per_scenario.push(json!({
            "scenario": S::NAME, "runs": runs, "wall_s": round3(wall),
            "runs_per_hour": if wall > 0.0 { (runs as f64 / wall * 3600.0) as u64 } else { 0 },
            "steps": acc.steps, "distinct_signatures": ds, "distinct_nontrivial": dn,
            "violating_runs": acc.nviol,
        }));
        // minimise and persist one representative per violation class
        for (_class, (run, seed, v)) in acc.viol.into_iter().take(6) {
            let case = S::generate(seed, run, prop, tier);
            let (min_case, min_v, execs) = minimise::<S>(case, prop, &v);
            let file = write_replay::<S>(&self.verif_dir, prop, self.master_seed, run, seed, &min_case, &min_v);
            self.found.push(FoundViolation {
                scenario: S::NAME,
                run,
                seed,
                violation: min_v,
                replay_path: file,
                minimised: S::describe(&min_case),
                shrink_execs: execs,
            });
        }
    }
}

/// In-flight journal of the supervised child process: worker `w` records (scenario tag, run, seed) at
/// byte offset 24*w before it starts a run. When the process is killed by a signal (allocation
/// failure aborts, it does not unwind), the supervising parent reads it to find the culprit run.
pub static JOURNAL: std::sync::OnceLock<std::fs::File> = std::sync::OnceLock::new();

pub fn scenario_tag(name: &str) -> u64 {
    run_seed(0, "", name, 0)
}

fn journal_write(worker: usize, tag: u64, run: u64, seed: u64) {
    if let Some(f) = JOURNAL.get() {
        use std::os::unix::fs::FileExt;
        let mut b = [0u8; 24];
        b[..8].copy_from_slice(&tag.to_le_bytes());
        b[8..16].copy_from_slice(&run.to_le_bytes());
        b[16..].copy_from_slice(&seed.to_le_bytes());
        let _ = f.write_at(&b, 24 * worker as u64);
    }
}

/// Executes exactly one run (used by the supervisor to find out which in-flight run kills the process).
pub fn run_one<S: Scenario>(seed: u64, run: u64, prop: &'static str, tier: Tier) -> usize {
    let case = S::generate(seed, run, prop, tier);
    S::execute(&case, prop).violations.len()
}

/// Writes the replay file of a run that killed the process.
pub fn mk_abort_replay<S: Scenario>(verif_dir: &str, prop: &'static str, master: u64, run: u64, seed: u64, tier: Tier, how: &str) -> (String, Value) {
    let case = S::generate(seed, run, prop, tier);
    let v = Violation { property: prop, class: format!("{}/process-abort", S::NAME), step: 0, detail: format!("the process was killed while executing this run ({}): the library aborts instead of returning", how) };
    (write_replay::<S>(verif_dir, prop, master, run, seed, &case, &v), S::describe(&case))
}

/// per-run limit of the watchdog (PDSIM_RUN_TIMEOUT_S, default 120 s), counted in CPU time of the
/// executing thread: a loaded machine slows a run down but cannot turn it into a verdict
pub fn run_timeout_ms() -> u64 {
    std::env::var("PDSIM_RUN_TIMEOUT_S").ok().and_then(|s| s.parse::<u64>().ok()).unwrap_or(120) * 1000
}

/// wall-clock backstop: a run that has not returned after this many times the CPU limit is given up
/// on even if the thread's CPU time cannot be read or does not advance
pub const WALL_BACKSTOP_FACTOR: u64 = 15;

/// kernel thread id of the calling thread (Linux: /proc/thread-self -> <pid>/task/<tid>); 0 if unknown
pub fn current_tid() -> u64 {
    std::fs::read_link("/proc/thread-self").ok().and_then(|p| p.file_name().and_then(|f| f.to_str().and_then(|s| s.parse().ok()))).unwrap_or(0)
}

/// CPU time (user + system) a thread of this process has consumed, in ms; None if it cannot be read.
/// /proc/<pid>/task/<tid>/stat counts in clock ticks of 1/100 s (USER_HZ is 100 on every Linux ABI).
pub fn thread_cpu_ms(tid: u64) -> Option<u64> {
    if tid == 0 {
        return None;
    }
    let t = std::fs::read_to_string(format!("/proc/self/task/{}/stat", tid)).ok()?;
    let rest = &t[t.rfind(')')? + 1..];
    let f: Vec<&str> = rest.split_whitespace().collect();
    // after the command name: state is f[0], utime f[11], stime f[12]
    let ut: u64 = f.get(11)?.parse().ok()?;
    let st: u64 = f.get(12)?.parse().ok()?;
    Some((ut + st) * 10)
}

/// Decides whether a run that has been in flight for `wall_ms` and has consumed `cpu_ms` (if known)
/// counts as non-terminating.
pub fn over_limit(wall_ms: u64, cpu_ms: Option<u64>, limit_ms: u64) -> bool {
    if wall_ms <= limit_ms {
        return false;
    }
    match cpu_ms {
        Some(c) => c > limit_ms || wall_ms > limit_ms * WALL_BACKSTOP_FACTOR,
        None => wall_ms > limit_ms * WALL_BACKSTOP_FACTOR,
    }
}

pub fn round3(x: f64) -> f64 {
    (x * 1000.0).round() / 1000.0
}

/// Executes a case on a helper thread; None if it does not return within the per-run limit
/// (the helper thread is abandoned then).
pub fn execute_with_timeout<S: Scenario>(case: &S::Case, prop: &'static str) -> Option<Outcome> {
    let (tx, rx) = std::sync::mpsc::channel();
    let (ttx, trx) = std::sync::mpsc::channel();
    let c = case.clone();
    std::thread::spawn(move || {
        let _ = ttx.send(current_tid());
        let out = S::execute(&c, prop);
        let _ = tx.send(out);
    });
    let tid = trx.recv_timeout(std::time::Duration::from_secs(5)).unwrap_or(0);
    let cpu0 = thread_cpu_ms(tid);
    let limit = run_timeout_ms();
    let t0 = Instant::now();
    loop {
        match rx.recv_timeout(std::time::Duration::from_millis(limit.min(1000).max(10))) {
            Ok(o) => return Some(o),
            Err(std::sync::mpsc::RecvTimeoutError::Disconnected) => return None,
            Err(std::sync::mpsc::RecvTimeoutError::Timeout) => {
                let cpu = match (cpu0, thread_cpu_ms(tid)) {
                    (Some(a), Some(b)) => Some(b.saturating_sub(a)),
                    _ => None,
                };
                if over_limit(t0.elapsed().as_millis() as u64, cpu, limit) {
                    return None;
                }
            }
        }
    }
}

/// Greedy delta debugging: accept a candidate iff the same violation class recurs.
pub fn minimise<S: Scenario>(mut case: S::Case, prop: &'static str, v: &Violation) -> (S::Case, Violation, u64) {
    let mut best_v = v.clone();
    let mut execs = 0u64;
    let t0 = Instant::now();
    'outer: loop {
        if execs > 20_000 || t0.elapsed().as_secs() > 15 {
            break;
        }
        for cand in S::shrink(&case) {
            execs += 1;
            // a candidate may kill the process (allocation failure aborts): leave it where the supervisor finds it
            if let Ok(j) = std::env::var("PDSIM_JOURNAL") {
                let doc = json!({"property": prop, "scenario": S::NAME, "violation_class": format!("{}/process-abort", S::NAME),
                    "expect": {"step": 0, "detail": "the process was killed while executing this minimisation candidate"},
                    "case": serde_json::to_value(&cand).unwrap()});
                let _ = std::fs::write(format!("{}.cand", j), serde_json::to_string(&doc).unwrap());
            }
            let out = match execute_with_timeout::<S>(&cand, prop) {
                Some(o) => o,
                None => break 'outer, // a candidate that hangs: stop minimising, keep what we have
            };
            if let Some(nv) = out.violations.into_iter().find(|x| x.class == v.class) {
                case = cand;
                best_v = nv;
                continue 'outer;
            }
            if execs > 20_000 || t0.elapsed().as_secs() > 15 {
                break 'outer;
            }
        }
        break;
    }
    if let Ok(j) = std::env::var("PDSIM_JOURNAL") {
        let _ = std::fs::remove_file(format!("{}.cand", j));
    }
    (case, best_v, execs)
}

fn write_replay<S: Scenario>(verif_dir: &str, prop: &str, master: u64, run: u64, seed: u64, case: &S::Case, v: &Violation) -> String {
    let dir = format!("{}/replays", verif_dir);
    let _ = std::fs::create_dir_all(&dir);
    let class_slug: String = v.class.chars().map(|c| if c.is_ascii_alphanumeric() { c } else { '-' }).collect();
    let path = format!("{}/{}-{}-{}-{}.json", dir, prop, S::NAME, class_slug, seed);
    let doc = json!({
        "property": prop, "scenario": S::NAME, "violation_class": v.class,
        "master_seed": master, "run": run, "run_seed": seed,
        "expect": { "step": v.step, "detail": v.detail },
        "case": serde_json::to_value(case).unwrap(),
    });
    std::fs::write(&path, serde_json::to_string_pretty(&doc).unwrap()).expect("write replay");
    path
}

/// Re-executes a replay file's case; returns the violations it produces.
pub fn replay_case<S: Scenario>(doc: &Value, prop: &'static str) -> Vec<Violation> {
    let case: S::Case = match serde_json::from_value(doc["case"].clone()) {
        Ok(c) => c,
        Err(e) => {
            eprintln!("HARNESS ERROR: replay file does not hold a {} case: {}", S::NAME, e);
            std::process::exit(2)
        }
    };
    match execute_with_timeout::<S>(&case, prop) {
        Some(o) => o.violations,
        None => vec![Violation { property: prop, class: format!("{}/hang", S::NAME), step: 0, detail: format!("the run did not return within {} s", run_timeout_ms() / 1000) }],
    }
}

// ---------------------------------------------------------------------------
// finishing a check: evidence, findings, exit code

impl CheckCtx {
    pub fn finish(mut self) -> i32 {
        let wall = self.started.elapsed().as_secs_f64();
        let known = KnownFindings::load(&self.verif_dir);
        let mut exit = 0;
        if self.evaluations == 0 {
            eprintln!("HARNESS ERROR: nothing was executed (PDSIM_ONLY matched no scenario of this check?)");
            println!("HARNESS ERROR: {} executed no run; no verdict", self.prop);
            return 2;
        }
        let mut lines = vec![];
        let mut unknown = 0;
        let mut known_hit = vec![];
        for f in &self.found {
            if let Some(k) = known.matches(self.prop, &f.violation.class) {
                lines.push(format!("KNOWN-FINDING: property={} {} [{}] replay={}", self.prop, k.what, f.violation.class, f.replay_path));
                known_hit.push(f.violation.class.clone());
            } else {
                lines.push(format!("VIOLATION property={} replay={}", self.prop, f.replay_path));
                lines.push(format!("  class={} scenario={} run={} step={} :: {}", f.violation.class, f.scenario, f.run, f.violation.step, f.violation.detail));
                unknown += 1;
                exit = 1;
            }
        }
        // starved probes: evidence always; harness error only in thorough runs
        let starved: Vec<&str> = self
            .required_probes
            .iter()
            .filter(|p| self.probes.get(*p).copied().unwrap_or(0) == 0 && self.faults.get(*p).copied().unwrap_or(0) == 0)
            .cloned()
            .collect();
        if !starved.is_empty() {
            self.notes.push(format!("starved probes: {:?}", starved));
            if self.tier == Tier::Thorough && exit == 0 {
                eprintln!("HARNESS ERROR: probes never fired in a thorough run: {:?}", starved);
                exit = 2;
            }
        }
        let mut rule = self.rules.join(" || ");
        rule.push_str(" || distinct = distinct run signatures (hash of configuration class and of the sequence of (operation kind, outcome class)); non-trivial = at least one fault kind fired in the run");
        let samples = if self.samples.is_empty() { vec![json!("none")] } else { self.samples.clone() };
        let mut coverage = json!({
            "evaluations": self.evaluations,
            "distinct_nontrivial": self.nontrivial_sigs.len(),
            "distinct_signatures": self.sigs.len(),
            "rule": rule,
            "samples": samples,
            "logical_steps_checked": self.steps,
            "simulated_time": "no clock exists in the library; simulated time is reported as logical steps (operations checked against the model)",
            "runs_per_hour": if wall > 0.0 { (self.evaluations as f64 / wall * 3600.0) as u64 } else { 0 },
            "seeds_per_hour": if wall > 0.0 { (self.evaluations as f64 / wall * 3600.0) as u64 } else { 0 },
            "faults_fired": self.faults,
            "probes_hit": self.probes,
            "starved_probes": starved,
            "per_scenario": self.per_scenario,
            "event_log_hash": format!("{:016x}", self.log_hash),
            "workers": self.workers,
            "real_vs_stub": {
                "real": ["pdatastructs (all of it, built from /repo's working tree with debug assertions and overflow checks)", "rand 0.8 distributions (gen_range, gen::<bool>)", "succinct IntVector", "fixedbitset", "num-traits", "bytecount", "serde / serde_json"],
                "stub": ["RNG core (SimRng: tape + SplitMix stream)", "BuildHasher (SimHasher; mode Sip runs the real SipHash-1-3 behind the same seam)", "network / stream transport between instances", "byte store for serialised sketches", "global allocator wrapper (counting only, forwards to System)"]
            },
            "found": self.found.iter().map(|f| json!({
                "class": f.violation.class, "scenario": f.scenario, "run": f.run, "seed": f.seed,
                "step": f.violation.step, "detail": f.violation.detail, "replay": f.replay_path,
                "minimised_case": f.minimised, "shrink_executions": f.shrink_execs,
                "known_finding": known_hit.contains(&f.violation.class),
            })).collect::<Vec<_>>(),
            "notes": self.notes,
        });
        for (k, v) in &self.extra {
            coverage[k] = v.clone();
        }
        let ev = json!({
            "property_id": self.prop,
            "tier": self.tier.name(),
            "seed": self.master_seed,
            "level": self.level,
            "coverage": coverage,
            "assumptions": self.assumptions,
            "wall_s": round3(wall),
            "violations": unknown,
            "known_findings_reported": known_hit.len(),
        });
        let dir = format!("{}/evidence", self.verif_dir);
        let _ = std::fs::create_dir_all(&dir);
        let path = format!("{}/{}.json", dir, self.prop);
        if let Err(e) = std::fs::write(&path, serde_json::to_string_pretty(&ev).unwrap()) {
            eprintln!("HARNESS ERROR: cannot write {}: {}", path, e);
            return 2;
        }
        for l in lines {
            println!("{}", l);
        }
        println!(
            "{} {} seed={} runs={} steps={} distinct_nontrivial={} wall={:.1}s log={:016x} -> {}",
            self.prop,
            self.tier.name(),
            self.master_seed,
            self.evaluations,
            self.steps,
            self.nontrivial_sigs.len(),
            wall,
            self.log_hash,
            if exit == 0 { "HELD" } else if exit == 1 { "VIOLATED" } else { "HARNESS-ERROR" }
        );
        exit
    }
}
