//! S3 — `ReservoirSampling<u64, SimRng>` fed the stream of position ids `0..n`.
//! S3a (C18): structural invariants after every add under arbitrary RNG words.
//! S3b (C05): inclusion frequencies of positions and regions over batches of RNG seeds.
use crate::framework::*;
use crate::rng::{mix2, SimRng, Sm, EXTREME_WORDS};
use crate::s1_filters::shrink_vec;
use pdatastructs::reservoirsampling::ReservoirSampling;
use serde::{Deserialize, Serialize};
use serde_json::{json, Value};

fn v(property: &'static str, class: String, step: usize, detail: String) -> Violation {
    Violation { property, class, step, detail }
}

// ---------------------------------------------------------------------------
// S3a

#[derive(Clone, Debug, Serialize, Deserialize)]
pub struct ResCase {
    pub k: usize,
    pub n: usize,
    pub rng_seed: u64,
    pub tape: Vec<(u64, u64)>,
    /// clear() after this many adds (0 = never), then the stream restarts
    pub clear_at: usize,
    /// 0: every item through add(); 1: every item through extend() with an iterator without an upper
    /// size hint; 2: alternating; 3: extend() with a filtered range (loose upper hint)
    #[serde(default)]
    pub via_extend: u8,
    /// state transfer before add number `at` (0 = never): a sampler built with `other_k` that has
    /// seen `other_n` foreign items is overwritten with `clone_from(&sampler)` and takes its place
    #[serde(default)]
    pub clone_from: Option<(usize, usize, usize)>,
}

pub struct S3a;

fn phase_name(k: usize, i: usize) -> &'static str {
    if i < k {
        "phase_fill"
    } else if i < k.saturating_mul(4) {
        "phase_reservoir"
    } else {
        "phase_gap"
    }
}

impl Scenario for S3a {
    type Case = ResCase;
    const NAME: &'static str = "S3a-reservoir-invariants";
    const RULE: &'static str = "k, n (on and around the phase boundaries k, 4k), RNG seed and a tape of extreme words at a random 0-30% of draw positions are drawn from the run seed; the reservoir is inspected after every add";

    fn generate(seed: u64, _run: u64, _prop: &'static str, _tier: Tier) -> ResCase {
        let mut g = Sm::new(seed);
        let k = match g.below(1000) {
            0..=599 => g.range(1, 8) as usize,
            600..=899 => g.range(9, 64) as usize,
            900..=989 => *g.pick(&[100usize, 128, 1000]),
            990..=997 => 1000,
            998 => *g.pick(&[usize::MAX, usize::MAX / 4 + 1, usize::MAX / 4, 1usize << 62]), // "any k >= 1"
            _ => 100_000,
        };
        let n = if k > 1_000_000 {
            g.range(1, 60) as usize
        } else if k >= 100_000 {
            k + g.range(0, 500) as usize
        } else {
            match g.below(10) {
                0 => g.range(0, k as u64) as usize,
                1 => k + g.range(0, 2) as usize,
                2 => 4 * k - 1 + g.range(0, 3) as usize,
                3..=5 => g.range(k as u64, 6 * k as u64 + 8) as usize,
                6..=8 => g.range(4 * k as u64, 40 * k as u64 + 40) as usize,
                _ => g.range(4 * k as u64, 400 * k as u64 + 400).min(60_000) as usize,
            }
        };
        let mut tape = vec![];
        let share = g.below(31); // percent of draw positions carrying an extreme word
        if share > 0 {
            // at most two draws per add (slot + gap), one in the reservoir phase
            let draws = 2 * n as u64 + 8;
            let mut p = 0u64;
            while p < draws {
                if g.below(100) < share {
                    tape.push((p, *g.pick(&EXTREME_WORDS)));
                    // never more than 3 extreme words in a row: rand's rejection loops must terminate
                    if tape.len() >= 3 && tape[tape.len() - 3].0 + 2 == p {
                        p += 1;
                    }
                }
                p += 1;
            }
        }
        let clear_at = if g.chance(1, 10) && n > 0 { g.range(1, n as u64) as usize } else { 0 };
        let via_extend = if g.chance(1, 4) { g.range(1, 3) as u8 } else { 0 };
        let clone_from = if g.chance(1, 8) && n > 0 && k <= 100_000 {
            let ok = match g.below(4) {
                0 => k,
                1 => (k / 2).max(1),
                2 => k + g.range(1, 9) as usize,
                _ => g.range(1, 12) as usize,
            };
            Some((g.usize(n), ok, g.range(0, (6 * ok as u64).min(300)) as usize))
        } else {
            None
        };
        ResCase { k, n, rng_seed: g.u64(), tape, clear_at, via_extend, clone_from }
    }

    fn execute(case: &ResCase, prop: &'static str) -> Outcome {
        let mut stats = RunStats::default();
        let mut viol = vec![];
        let mut step = 0usize;
        let k = case.k;
        stats.sig(k.min(70) as u64);
        if !case.tape.is_empty() {
            stats.fault_n("rng_extreme_word", case.tape.len() as u64);
        }
        let r = guarded(|| {
            let (rng, mut probe) = SimRng::new(case.rng_seed, &case.tape);
            let mut rs = ReservoirSampling::<u64, SimRng>::new(k, rng);
            if !rs.is_empty() || rs.i() != 0 || !rs.reservoir().is_empty() {
                viol.push(v("C18", "reservoir/fresh-not-empty".into(), 0, "fresh sampler is not empty".into()));
                return;
            }
            let mut seen_stamp = vec![0u32; case.n.max(1)];
            let mut stamp = 0u32;
            let mut base = 0usize; // adds before the last clear
            let mut i = 0usize; // adds since the last clear
            let full_check_every = if k > 2000 { 997 } else if k > 64 { 13 } else { 1 };
            for t in 0..case.n {
                step = t + 1;
                if case.clear_at == t && t > 0 {
                    rs.clear();
                    stats.fault("node_restart");
                    base = t;
                    i = 0;
                    if !rs.is_empty() || rs.i() != 0 || !rs.reservoir().is_empty() {
                        viol.push(v("C19", "reservoir/clear/not-empty".into(), step, "after clear(): not empty".into()));
                        return;
                    }
                }
                if let Some((at, other_k, other_n)) = case.clone_from {
                    if at == t {
                        let (rng2, _) = SimRng::new(case.rng_seed ^ 0x5151, &[]);
                        let mut other = ReservoirSampling::<u64, SimRng>::new(other_k.max(1), rng2);
                        for x in 0..other_n {
                            other.add(u64::MAX - x as u64);
                        }
                        let _ = crate::rng::take_last_clone_probe();
                        other.clone_from(&rs);
                        if let Some(p) = crate::rng::take_last_clone_probe() {
                            probe = p;
                        }
                        stats.probe("clone_from_installed");
                        if other.k() != rs.k() || other.i() != rs.i() || other.reservoir() != rs.reservoir() || other.is_empty() != rs.is_empty() {
                            viol.push(v("C18", "reservoir/clone_from/differs-from-source".into(), step, format!("a sampler with k = {} after {} items, overwritten with clone_from(sampler with k = {}, i = {}): k() = {}, i() = {}, {} items held", other_k, other_n, k, rs.i(), other.k(), other.i(), other.reservoir().len())));
                            return;
                        }
                        rs = other;
                    }
                }
                let p0 = probe.pos();
                let item = t as u64;
                match (case.via_extend, t % 2) {
                    (1, _) | (2, 1) => {
                        // the caller's iterator knows no upper bound
                        let mut once = Some(item);
                        rs.extend(std::iter::from_fn(move || once.take()));
                        stats.probe("via_extend");
                    }
                    (3, _) => {
                        rs.extend((item..item + 2).filter(move |x| *x == item));
                        stats.probe("via_extend");
                    }
                    _ => rs.add(item),
                }
                i += 1;
                stats.steps += 1;
                let words = probe.pos() - p0;
                if i == k || i == k.saturating_add(1) {
                    stats.probe("boundary_fill_to_reservoir");
                }
                if i == k.saturating_mul(4) || i == k.saturating_mul(4).saturating_add(1) {
                    stats.probe("boundary_reservoir_to_gap");
                }
                if t + 1 == case.n || i % 64 == 0 {
                    stats.probe(phase_name(k, i - 1));
                }
                stats.sig(words.min(3));
                let res = rs.reservoir();
                if res.len() != i.min(k) {
                    viol.push(v("C18", "reservoir/len".into(), step, format!("after {} adds (k = {}): reservoir holds {} items", i, k, res.len())));
                    return;
                }
                if rs.i() != i {
                    viol.push(v("C18", "reservoir/i".into(), step, format!("i() = {} after {} adds", rs.i(), i)));
                    return;
                }
                if rs.is_empty() {
                    viol.push(v("C18", "reservoir/is_empty".into(), step, "is_empty() after an add".into()));
                    return;
                }
                if i <= k {
                    // the newest item is checked on every add, the whole prefix at intervals
                    let full = i <= 64 || i == k || (k <= 2000 && t % full_check_every == 0) || t + 1 == case.n;
                    if res[i - 1] != (base + i - 1) as u64 || (full && res.iter().enumerate().any(|(j, &x)| x != (base + j) as u64)) {
                        viol.push(v("C18", "reservoir/prefix-order".into(), step, format!("after {} <= k adds the reservoir is {:?}", i, res)));
                        return;
                    }
                } else if t % full_check_every == 0 || t + 1 == case.n {
                    stamp += 1;
                    for &x in res.iter() {
                        if (x as usize) < base || x as usize > t {
                            viol.push(v("C18", "reservoir/item-not-in-stream".into(), step, format!("item {} is not one of the positions {}..={}", x, base, t)));
                            return;
                        }
                        if seen_stamp[x as usize] == stamp {
                            viol.push(v("C18", "reservoir/duplicate-position".into(), step, format!("position {} occurs twice in {:?}", x, res)));
                            return;
                        }
                        seen_stamp[x as usize] = stamp;
                    }
                }
            }
        });
        if let Caught::LibPanic(loc, msg) = r {
            viol.push(v("C18", format!("reservoir/panic/{}", panic_site(&loc)), step, format!("add number {} (k = {}) panicked at {}: {}", step, k, loc, msg)));
        }
        Outcome { stats, violations: viol.into_iter().filter(|x| x.property == prop).collect() }
    }

    fn shrink(case: &ResCase) -> Vec<ResCase> {
        let mut out = vec![];
        for n in [case.n / 2, case.n * 3 / 4, case.n.saturating_sub(1)] {
            if n < case.n {
                let mut c = case.clone();
                c.n = n;
                c.tape.retain(|t| t.0 < 2 * n as u64 + 8);
                if c.clear_at >= n {
                    c.clear_at = 0;
                }
                if matches!(c.clone_from, Some((at, _, _)) if at >= n) {
                    c.clone_from = None;
                }
                out.push(c);
            }
        }
        if case.clear_at != 0 {
            let mut c = case.clone();
            c.clear_at = 0;
            out.push(c);
        }
        if let Some((at, ok, on)) = case.clone_from {
            let mut c = case.clone();
            c.clone_from = None;
            out.push(c);
            if on > 0 {
                let mut c = case.clone();
                c.clone_from = Some((at, ok, on / 2));
                out.push(c);
            }
        }
        if case.via_extend != 0 {
            let mut c = case.clone();
            c.via_extend = 0;
            out.push(c);
        }
        for k in [1, case.k / 2, case.k.saturating_sub(1)] {
            if k >= 1 && k < case.k {
                let mut c = case.clone();
                c.k = k;
                out.push(c);
            }
        }
        if !case.tape.is_empty() {
            let mut c = case.clone();
            c.tape.clear();
            out.push(c);
            for t in shrink_vec(&case.tape).into_iter().take(200) {
                let mut c = case.clone();
                c.tape = t;
                out.push(c);
            }
        }
        out
    }
}

// ---------------------------------------------------------------------------
// S3b

#[derive(Clone, Debug, Serialize, Deserialize)]
pub struct UniCase {
    pub k: usize,
    pub n: usize,
    /// sampler runs in this batch, each with its own RNG seed derived from `batch_seed`
    pub m: u64,
    pub batch_seed: u64,
    /// the sampler first sees this many other items and is then cleared (0 = fresh sampler)
    #[serde(default)]
    pub warmup: usize,
    /// 0: add(); 1: extend() in small batches whose iterators report a lower size bound of 0
    /// (filter); 2: batches chained from an exact and a filtered part; 3: one item per extend call
    /// from an iterator without any size information
    #[serde(default)]
    pub feed: u8,
}

pub struct S3b;

pub const KS: [usize; 7] = [1, 2, 3, 4, 8, 16, 64];

pub fn grid_ns(k: usize) -> Vec<usize> {
    let mut v = vec![k + 1, 2 * k, 4 * k - 1, 4 * k, 4 * k + 1, 4 * k + 2, 5 * k, 6 * k];
    v.retain(|&n| n > k);
    v.sort();
    v.dedup();
    v
}

pub fn small_grid() -> Vec<(usize, usize)> {
    KS.iter().flat_map(|&k| grid_ns(k).into_iter().map(move |n| (k, n))).collect()
}

/// cells run on a sampler that was used and cleared before: (k, n, warmup)
pub fn restart_grid() -> Vec<(usize, usize, usize)> {
    let mut v = vec![];
    for &k in &[1usize, 4, 16, 64] {
        v.push((k, 6 * k, 40 * k));
        v.push((k, 4 * k + 2, 8 * k));
        v.push((k, 2 * k, 3 * k));
    }
    v
}

/// very long streams for tiny k: (k, n, sampler runs). Past n/k = 2^25 a probability computed in
/// single precision is exactly 0; the stream itself is cheap because the skipping phase does no work
/// between accepted items.
pub fn deep_grid() -> Vec<(usize, usize, u64)> {
    vec![(1, 1 << 27, 6), (2, 1 << 28, 3)]
}

/// cells fed through `Extend` instead of `add`: (k, n, feed)
pub fn extend_grid() -> Vec<(usize, usize, u8)> {
    vec![(1, 6, 1), (2, 12, 2), (4, 24, 1), (4, 18, 3), (16, 96, 2), (16, 66, 1), (3, 6, 2), (64, 384, 1)]
}

/// number of cells of a tier (the order of `S3b::generate`: small, restart, deep, [large], extend)
pub fn grid_len(tier: Tier) -> usize {
    small_grid().len() + restart_grid().len() + deep_grid().len() + if tier == Tier::Thorough { large_grid().len() } else { 0 } + extend_grid().len()
}

pub fn large_grid() -> Vec<(usize, usize)> {
    vec![(64, 10_000), (64, 100_000), (256, 10_000), (256, 100_000)]
}

/// Relative bias the documented gap-sampling approximation may have (DESIGN C05): zero while
/// n <= 4k+1, `(1 + ln(n/4k))/k` beyond.
pub fn tol(k: usize, n: usize) -> f64 {
    if n <= 4 * k + 1 {
        0.0
    } else {
        (1.0 + (n as f64 / (4.0 * k as f64)).ln()) / k as f64
    }
}

pub struct Region {
    pub name: String,
    pub lo: usize,
    pub hi: usize, // exclusive
}

pub fn regions(k: usize, n: usize) -> Vec<Region> {
    let mut r = vec![];
    if n > 10_000_000 {
        // deep cells: only the ends of the stream (summing 10^8 counters per region costs more than the run)
        r.push(Region { name: "first-k".into(), lo: 0, hi: k });
        r.push(Region { name: "last-2^20".into(), lo: n - (1 << 20), hi: n });
        r.push(Region { name: "last-k".into(), lo: n - k, hi: n });
        r.push(Region { name: "last-item".into(), lo: n - 1, hi: n });
        return r;
    }
    r.push(Region { name: "first-k".into(), lo: 0, hi: k.min(n) });
    if n > k {
        r.push(Region { name: "reservoir-phase".into(), lo: k, hi: (4 * k).min(n) });
    }
    if n > 4 * k {
        r.push(Region { name: "switch-item".into(), lo: 4 * k, hi: 4 * k + 1 });
        let gl = n - 4 * k;
        if gl >= 16 {
            for s in 0..8 {
                r.push(Region { name: format!("gap-slice-{}", s), lo: 4 * k + gl * s / 8, hi: 4 * k + gl * (s + 1) / 8 });
            }
        } else if gl > 1 {
            r.push(Region { name: "gap-phase".into(), lo: 4 * k + 1, hi: n });
        }
    }
    r.push(Region { name: "last-k".into(), lo: n.saturating_sub(k), hi: n });
    r.push(Region { name: "last-item".into(), lo: n - 1, hi: n });
    r
}

pub struct CellResult {
    pub counts: Vec<u64>,
    pub structural: Option<String>,
}

/// Runs the library sampler `m` times and counts how often every position ends up in the reservoir.
pub fn run_cell(case: &UniCase) -> CellResult {
    let mut counts = vec![0u64; case.n];
    for r in 0..case.m {
        let (rng, _) = SimRng::new(mix2(case.batch_seed, r), &[]);
        let mut rs = ReservoirSampling::<u32, SimRng>::new(case.k, rng);
        if case.warmup > 0 {
            // a restarted sampler must sample like a fresh one
            for t in 0..case.warmup {
                rs.add(u32::MAX - t as u32);
            }
            rs.clear();
        }
        match case.feed {
            0 => {
                for t in 0..case.n {
                    rs.add(t as u32);
                }
            }
            3 => {
                for t in 0..case.n {
                    let mut once = Some(t as u32);
                    rs.extend(std::iter::from_fn(move || once.take()));
                }
            }
            f => {
                // batch lengths 1, 2, 3, 5, 1, ...: batches start and end in every phase
                let mut t = 0usize;
                let mut b = 0usize;
                while t < case.n {
                    let len = [1usize, 2, 3, 5][b % 4].min(case.n - t);
                    b += 1;
                    let (lo, hi) = (t as u32, (t + len) as u32);
                    if f == 1 {
                        rs.extend((lo..hi).filter(|_| true));
                    } else {
                        let mid = lo + (hi - lo) / 2;
                        rs.extend((lo..mid).chain((mid..hi).filter(|_| true)));
                    }
                    t += len;
                }
            }
        }
        let res = rs.reservoir();
        if res.len() != case.k.min(case.n) {
            return CellResult { counts, structural: Some(format!("reservoir holds {} items", res.len())) };
        }
        for &x in res.iter() {
            if (x as usize) < case.n {
                counts[x as usize] += 1;
            }
        }
    }
    CellResult { counts, structural: None }
}

/// Textbook implementation of the documented algorithm (Algorithm R, then geometric gaps with the
/// acceptance probability frozen at the moment of the previous acceptance). Used only to calibrate
/// `tol` (`pdsim calibrate-c05`), never as an oracle.
pub fn run_cell_reference(case: &UniCase) -> Vec<u64> {
    let mut counts = vec![0u64; case.n];
    let k = case.k;
    for r in 0..case.m {
        let mut g = Sm::new(mix2(case.batch_seed ^ 0xabcdef, r));
        let mut res: Vec<u32> = Vec::with_capacity(k);
        let mut skip_until = 0usize;
        for i in 0..case.n {
            if i < k {
                res.push(i as u32);
            } else if i < 4 * k {
                let j = g.usize(i + 1);
                if j < k {
                    res[j] = i as u32;
                }
            } else {
                if i == 4 * k {
                    let p = k as f64 / (i + 1) as f64;
                    let u = 1.0 - g.f64();
                    skip_until = i + (u.ln() / (1.0 - p).ln()).floor() as usize;
                }
                if i >= skip_until {
                    let j = g.usize(k);
                    res[j] = i as u32;
                    let p = k as f64 / (i + 2) as f64;
                    let u = 1.0 - g.f64();
                    skip_until = i + 1 + (u.ln() / (1.0 - p).ln()).floor() as usize;
                }
            }
        }
        for &x in &res {
            counts[x as usize] += 1;
        }
    }
    counts
}

pub struct Deviation {
    pub what: String,
    pub observed: f64,
    pub expected: f64,
    pub rel: f64,
    pub allowed: f64,
    pub z: f64,
}

/// Worst deviations of a cell: per region and (cells with n <= 400) per position.
pub fn evaluate(case: &UniCase, counts: &[u64]) -> (Vec<Deviation>, f64) {
    let (k, n, m) = (case.k, case.n, case.m as f64);
    let pi = k as f64 / n as f64;
    let t = tol(k, n);
    let mut dev = vec![];
    let mut worst_ratio: f64 = 0.0;
    let mut test = |what: String, lo: usize, hi: usize, z_allowed: f64, dev: &mut Vec<Deviation>| {
        let width = (hi - lo) as f64;
        if width == 0.0 {
            return;
        }
        let obs: u64 = counts[lo..hi].iter().sum();
        let exp = m * pi * width;
        // inclusions inside one run are negatively correlated, so the binomial standard error of
        // the region total is conservative (an upper bound)
        let sigma_rel = ((1.0 - pi).max(0.0) / (m * pi * width)).sqrt();
        let rel = obs as f64 / exp - 1.0;
        // always allow one count of slack: exact cells (pi = 1) have sigma 0
        let allowed = z_allowed * sigma_rel + t + 1.0 / exp;
        let ratio = rel.abs() / allowed;
        if ratio > worst_ratio {
            worst_ratio = ratio;
        }
        if rel.abs() > allowed {
            dev.push(Deviation { what, observed: obs as f64, expected: exp, rel, allowed, z: if sigma_rel > 0.0 { rel / sigma_rel } else { f64::INFINITY } });
        }
    };
    for r in regions(k, n) {
        test(r.name.clone(), r.lo, r.hi, 6.0, &mut dev);
    }
    if n <= 400 {
        for p in 0..n {
            test(format!("position-{}", p), p, p + 1, 6.5, &mut dev);
        }
    }
    (dev, worst_ratio)
}

fn region_class(k: usize, n: usize, what: &str) -> String {
    let phase = if n <= 4 * k { "reservoir-phase" } else if n == 4 * k + 1 { "at-switch" } else { "gap-phase" };
    let w = if what.starts_with("position-") {
        let p: usize = what[9..].parse().unwrap_or(0);
        if p < k {
            "first-k".to_string()
        } else if p < 4 * k {
            "reservoir-phase".to_string()
        } else if p == 4 * k {
            "switch-item".to_string()
        } else {
            "gap-phase".to_string()
        }
    } else if what.starts_with("gap-slice") || what == "last-2^20" {
        "gap-phase".to_string()
    } else {
        what.to_string()
    };
    format!("reservoir/nonuniform/stream-ends-{}/{}", phase, w)
}

impl Scenario for S3b {
    type Case = UniCase;
    const NAME: &'static str = "S3b-reservoir-uniformity";
    const RULE: &'static str = "one evaluation = one (k, n) cell of the grid k in {1,2,3,4,8,16,64} x n in {k+1,2k,4k-1,4k,4k+1,4k+2,5k,6k} (thorough: plus k in {64,256}, n in {1e4,1e5}), plus cells on samplers that were used and cleared before, cells with n = 2^27 / 2^28 and cells fed through Extend with lazily sized iterators, run as a batch of m samplers each with its own SimRng seed and an empty tape; inclusion counts of every position (n <= 400) and of the regions first-k / reservoir phase / switch item / gap slices / last-k are tested against k/n at z = 6 (6.5 per position), exact while n <= 4k+1 and with the allowance (1+ln(n/4k))/k beyond";

    fn generate(seed: u64, run: u64, _prop: &'static str, tier: Tier) -> UniCase {
        let small = small_grid();
        let restart = restart_grid();
        let large = large_grid();
        let deep = deep_grid();
        let ext = extend_grid();
        let n_large = if tier == Tier::Thorough { large.len() } else { 0 };
        let total = grid_len(tier);
        let idx = (run as usize) % total;
        let scale = if tier == Tier::Thorough { 10 } else { 1 };
        if idx >= small.len() + restart.len() && idx < small.len() + restart.len() + deep.len() {
            let (k, n, m) = deep[idx - small.len() - restart.len()];
            return UniCase { k, n, m, batch_seed: seed, warmup: 0, feed: 0 };
        }
        if idx >= small.len() + restart.len() + deep.len() + n_large {
            let (k, n, feed) = ext[idx - small.len() - restart.len() - deep.len() - n_large];
            let m = if k <= 16 { 100_000 } else { 20_000 } * scale;
            return UniCase { k, n, m, batch_seed: seed, warmup: 0, feed };
        }
        if idx < small.len() {
            let (k, n) = small[idx];
            let m = if k <= 16 { 200_000 } else { 20_000 } * scale;
            UniCase { k, n, m, batch_seed: seed, warmup: 0, feed: 0 }
        } else if idx < small.len() + restart.len() {
            let (k, n, warmup) = restart[idx - small.len()];
            let m = if k <= 16 { 100_000 } else { 20_000 } * scale;
            UniCase { k, n, m, batch_seed: seed, warmup, feed: 0 }
        } else {
            let (k, n) = large[idx - small.len() - restart.len() - deep.len()];
            let m = if n >= 100_000 { 3_000 } else { 10_000 };
            UniCase { k, n, m, batch_seed: seed, warmup: 0, feed: 0 }
        }
    }

    fn execute(case: &UniCase, prop: &'static str) -> Outcome {
        let mut stats = RunStats::default();
        let mut viol = vec![];
        stats.sig(case.k as u64 * 1_000_003 + case.n as u64);
        stats.steps = case.m * case.n as u64;
        stats.probe_n("sampler_runs", case.m);
        if case.warmup > 0 {
            stats.fault_n("node_restart", case.m);
        }
        stats.sig(case.warmup as u64);
        stats.sig(case.feed as u64);
        if case.feed != 0 {
            stats.probe("cell_fed_through_extend");
        }
        stats.probe(if case.n <= 4 * case.k { "cell_ends_in_reservoir_phase" } else if case.n == 4 * case.k + 1 { "cell_ends_at_switch" } else { "cell_ends_in_gap_phase" });
        // the "fault" of this scenario is the RNG stream itself: every cell is non-trivial
        stats.fault_n("rng_stream_owned", case.m);
        let r = guarded(|| run_cell(case));
        match r {
            Caught::LibPanic(loc, msg) => {
                viol.push(v("C05", format!("reservoir/panic/{}", panic_site(&loc)), 0, format!("panic at {}: {}", loc, msg)));
            }
            Caught::Ok(cell) => {
                if let Some(s) = cell.structural {
                    viol.push(v("C05", "reservoir/structural".into(), 0, s));
                } else {
                    let (dev, _) = evaluate(case, &cell.counts);
                    // one violation per class, the worst deviation of that class
                    let mut by_class: std::collections::BTreeMap<String, &Deviation> = Default::default();
                    for d in &dev {
                        let c = region_class(case.k, case.n, &d.what);
                        let e = by_class.entry(c).or_insert(d);
                        if (d.rel.abs() / d.allowed) > (e.rel.abs() / e.allowed) {
                            *e = d;
                        }
                    }
                    for (c, d) in by_class {
                        viol.push(v(
                            "C05",
                            c,
                            0,
                            format!(
                                "k = {}, n = {}{}, {} sampler runs: {} included {} times, expected {:.1} (ratio {:.4}, z = {:.1}, allowed relative deviation {:.4})",
                                case.k, case.n, if case.warmup > 0 { format!(" (after {} other items and clear())", case.warmup) } else if case.feed != 0 { format!(" (fed through extend, mode {})", case.feed) } else { String::new() }, case.m, d.what, d.observed, d.expected, 1.0 + d.rel, d.z, d.allowed
                            ),
                        ));
                    }
                }
            }
        }
        Outcome { stats, violations: viol.into_iter().filter(|x| x.property == prop).collect() }
    }

    fn shrink(case: &UniCase) -> Vec<UniCase> {
        // smaller cells of the grid first (same batch seed), then fewer runs
        let mut out = vec![];
        let mut cells = small_grid();
        cells.sort_by_key(|&(k, n)| (n, k));
        for (k, n) in cells {
            if n < case.n || (n == case.n && k < case.k) {
                out.push(UniCase { k, n, m: case.m.min(200_000), batch_seed: case.batch_seed, warmup: case.warmup.min(40 * k), feed: case.feed });
            }
        }
        if case.warmup > 0 {
            out.push(UniCase { warmup: 0, ..case.clone() });
        }
        if case.feed != 0 {
            out.push(UniCase { feed: 0, ..case.clone() });
        }
        if case.m > 20_000 {
            out.push(UniCase { m: case.m / 2, ..case.clone() });
        }
        out
    }

    fn describe(case: &UniCase) -> Value {
        json!({"k": case.k, "n": case.n, "sampler_runs": case.m, "batch_seed": case.batch_seed, "warmup_then_clear": case.warmup, "feed": case.feed})
    }
}

/// `pdsim calibrate-c05`: how much of the allowance a textbook implementation uses.
pub fn calibrate() {
    println!("k n m worst_ratio(reference, |rel|/allowed)  tol");
    let mut cells = small_grid();
    cells.extend(large_grid());
    for (k, n) in cells {
        let m = if n >= 100_000 { 2_000 } else if n >= 10_000 { 10_000 } else if k <= 16 { 200_000 } else { 20_000 };
        let case = UniCase { k, n, m, batch_seed: 42, warmup: 0, feed: 0 };
        let counts = run_cell_reference(&case);
        let (dev, worst) = evaluate(&case, &counts);
        println!("{} {} {} {:.3} {:.4} {}", k, n, m, worst, tol(k, n), if dev.is_empty() { "" } else { "EXCEEDS" });
    }
}
