//! S4 — `TDigest` under a simulator-chosen compaction schedule: the backlog knob and the positions
//! of `&self` reads decide which inserts are compacted together. Serves C04, C15, C16.
use crate::framework::*;
use crate::rng::Sm;
use crate::s1_filters::shrink_vec;
use pdatastructs::tdigest::{ScaleFunction, TDigest, K0, K1, K2, K3};
use serde::{Deserialize, Serialize};
use serde_json::{json, Value};
use std::fmt::Debug;

#[derive(Clone, Debug, Serialize, Deserialize)]
pub enum DOp {
    Ins(f64),
    InsW(f64, f64),
    /// one `&self` method (each of the first six compacts): 0 quantile, 1 cdf, 2 count, 3 sum,
    /// 4 mean, 5 n_centroids, 6 min/max/is_empty; the argument is the q / x position in [0, 1]
    Read(u8, f64),
    /// full oracle check point
    Check,
    Clear,
    Fork,
    /// a scratch digest of another configuration with a few inserts still pending in its backlog
    /// is overwritten with `Clone::clone_from(&d)`; the run continues on the copy
    CloneFromInto { delta: f64, backlog: usize, pending: u8 },
    /// an insert the library must reject (documented panic: weight negative / NaN / infinite);
    /// the caller recovers and keeps using the digest, which must not have changed
    Rejected(f64, f64),
}

#[derive(Clone, Debug, Serialize, Deserialize)]
pub struct DigestCase {
    pub scale: u8,
    pub delta: f64,
    pub backlog: usize,
    /// iid draws from a smooth density (C04: c = 1)
    pub smooth: bool,
    /// iid continuous draws: coinciding centroid means have probability zero (C15: tight bound)
    pub generic: bool,
    pub pattern: String,
    pub ops: Vec<DOp>,
}

pub struct S4;

fn v(property: &'static str, class: String, step: usize, detail: String) -> Violation {
    Violation { property, class, step, detail }
}

pub fn scale_name(s: u8) -> &'static str {
    ["k0", "k1", "k2", "k3"][s as usize & 3]
}

/// maximal cluster width of the scale function as given in C04; None = the statement makes no claim
pub fn cluster_width(scale: u8, delta: f64, n: usize) -> Option<f64> {
    let nf = n as f64;
    match scale & 3 {
        0 => Some(2.0 / delta),
        1 => Some(std::f64::consts::PI / delta),
        2 => {
            if nf >= delta {
                Some(((nf / delta).ln() + 6.0) / delta)
            } else {
                None
            }
        }
        _ => {
            if nf >= delta {
                Some((2.0 * (nf / delta).ln() + 10.5) / delta)
            } else {
                None
            }
        }
    }
}

struct Agg {
    n_ins: usize,
    sw: f64,
    sxw: f64,
    saxw: f64,
    min: f64,
    max: f64,
    minw: f64,
    vals: Vec<(f64, f64)>,
    unit: bool,
}

impl Agg {
    fn new() -> Self {
        Agg { n_ins: 0, sw: 0.0, sxw: 0.0, saxw: 0.0, min: f64::INFINITY, max: f64::NEG_INFINITY, minw: f64::INFINITY, vals: vec![], unit: true }
    }
    fn add(&mut self, x: f64, w: f64) {
        self.n_ins += 1;
        self.sw += w;
        self.sxw += x * w;
        self.saxw += x.abs() * w;
        self.min = self.min.min(x);
        self.max = self.max.max(x);
        self.minw = self.minw.min(w);
        if w != 1.0 {
            self.unit = false;
        }
        self.vals.push((x, w));
    }
}

/// Object-safe face of a digest with any scale function (also used by S6, S7).
pub trait DigDyn {
    fn insert_weighted(&mut self, x: f64, w: f64);
    fn quantile(&self, q: f64) -> f64;
    fn cdf(&self, x: f64) -> f64;
    fn count(&self) -> f64;
    fn sum(&self) -> f64;
    fn mean(&self) -> f64;
    fn min(&self) -> f64;
    fn max(&self) -> f64;
    fn n_centroids(&self) -> usize;
    fn is_empty(&self) -> bool;
    fn clear(&mut self);
    fn fork(&self) -> Box<dyn DigDyn>;
    fn as_any(&self) -> &dyn std::any::Any;
    /// `Clone::clone_from`; false if the scale functions differ
    fn clone_from_dyn(&mut self, src: &dyn DigDyn) -> bool;
}

impl<S: ScaleFunction + Clone + Debug + 'static> DigDyn for TDigest<S> {
    fn insert_weighted(&mut self, x: f64, w: f64) {
        if w == 1.0 {
            self.insert(x)
        } else {
            TDigest::insert_weighted(self, x, w)
        }
    }
    fn quantile(&self, q: f64) -> f64 {
        TDigest::quantile(self, q)
    }
    fn cdf(&self, x: f64) -> f64 {
        TDigest::cdf(self, x)
    }
    fn count(&self) -> f64 {
        TDigest::count(self)
    }
    fn sum(&self) -> f64 {
        TDigest::sum(self)
    }
    fn mean(&self) -> f64 {
        TDigest::mean(self)
    }
    fn min(&self) -> f64 {
        TDigest::min(self)
    }
    fn max(&self) -> f64 {
        TDigest::max(self)
    }
    fn n_centroids(&self) -> usize {
        TDigest::n_centroids(self)
    }
    fn is_empty(&self) -> bool {
        TDigest::is_empty(self)
    }
    fn clear(&mut self) {
        TDigest::clear(self)
    }
    fn fork(&self) -> Box<dyn DigDyn> {
        Box::new(self.clone())
    }
    fn as_any(&self) -> &dyn std::any::Any {
        self
    }
    fn clone_from_dyn(&mut self, src: &dyn DigDyn) -> bool {
        match src.as_any().downcast_ref::<TDigest<S>>() {
            Some(s) => {
                self.clone_from(s);
                true
            }
            None => false,
        }
    }
}

pub fn build_digest(scale: u8, delta: f64, backlog: usize) -> Box<dyn DigDyn> {
    match scale & 3 {
        0 => Box::new(TDigest::new(K0::new(delta), backlog)),
        1 => Box::new(TDigest::new(K1::new(delta), backlog)),
        2 => Box::new(TDigest::new(K2::new(delta), backlog)),
        _ => Box::new(TDigest::new(K3::new(delta), backlog)),
    }
}

const ULP: f64 = 2.220446049250313e-16; // 2^-52

struct Exec<'a> {
    case: &'a DigestCase,
    prop: &'static str,
    sname: &'static str,
    stats: RunStats,
    viol: Vec<Violation>,
    step: usize,
    /// which of count / sum / mean the next aggregate check reads first (None: rotates with the step)
    first_aggregate: Option<u8>,
}

impl<'a> Exec<'a> {
    /// Drops deviations that belong to other properties and tells whether one of the checked property
    /// remains. All oracles of this scenario compare with the exact model independently of each other,
    /// so a run that has shown, say, a wrong min() (C16) can still be judged for rank accuracy (C04).
    fn mine(&mut self) -> bool {
        let p = self.prop;
        self.viol.retain(|x| x.property == p);
        !self.viol.is_empty()
    }

    fn q_grid(n: usize) -> Vec<f64> {
        let nf = n.max(1) as f64;
        let mut g = vec![0.0, ULP, 1e-9, 0.25 / nf, 0.5 / nf, 1.0 / nf, 1.5 / nf, 1.0 - 1.5 / nf, 1.0 - 1.0 / nf, 1.0 - 0.5 / nf, 1.0 - 0.25 / nf, 1.0 - 1e-9, 1.0 - ULP / 2.0, 1.0];
        for i in 1..240 {
            g.push(i as f64 / 240.0);
        }
        for x in g.iter_mut() {
            *x = x.clamp(0.0, 1.0);
        }
        g.sort_by(|a, b| a.total_cmp(b));
        g.dedup();
        g
    }

    /// cheap conservation checks (C16), evaluated at every read
    fn check_aggregates(&mut self, d: &dyn DigDyn, a: &Agg, ctx: &str) {
        let s = self.sname;
        let empty = d.is_empty();
        if empty != (a.n_ins == 0) {
            self.viol.push(v("C16", format!("tdigest/{}/is_empty", s), self.step, format!("{}: is_empty() = {} after {} positive-weight inserts", ctx, empty, a.n_ins)));
        }
        let (mn, mx) = (d.min(), d.max());
        if a.n_ins > 0 && (mn.to_bits() != a.min.to_bits() || mx.to_bits() != a.max.to_bits()) {
            self.viol.push(v("C16", format!("tdigest/{}/min-max", s), self.step, format!("{}: min/max = {}/{}, inserted extremes {}/{}", ctx, mn, mx, a.min, a.max)));
        }
        // count(), sum() and mean() each have to flush pending inserts themselves: whichever is read
        // first must already be right (the order rotates, `first_aggregate` pins it)
        let order = self.first_aggregate.take().unwrap_or((self.step % 3) as u8);
        let (mut c, mut sm, mut me) = (f64::NAN, f64::NAN, f64::NAN);
        for k in 0..3u8 {
            match (order + k) % 3 {
                0 => c = d.count(),
                1 => sm = d.sum(),
                _ => me = d.mean(),
            }
        }
        if (c - a.sw).abs() > 1e-9 * a.sw.abs() {
            self.viol.push(v("C16", format!("tdigest/{}/count", s), self.step, format!("{}: count() = {}, sum of inserted weights = {}", ctx, c, a.sw)));
        }
        // (sums whose absolute total overflows f64 are outside "floating-point accumulation accuracy")
        if a.saxw.is_finite() && (sm - a.sxw).abs() > 1e-9 * a.saxw {
            self.viol.push(v("C16", format!("tdigest/{}/sum", s), self.step, format!("{}: sum() = {}, weighted sum of inserted values = {}", ctx, sm, a.sxw)));
        }
        if a.n_ins > 0 && a.saxw.is_finite() {
            let want = a.sxw / a.sw;
            if !((me - want).abs() <= 1e-9 * a.saxw / a.sw) {
                self.viol.push(v("C16", format!("tdigest/{}/mean", s), self.step, format!("{}: mean() = {}, weighted mean of inserted values = {}", ctx, me, want)));
            }
        }
    }

    fn check_empty(&mut self, d: &dyn DigDyn, prop: &'static str, ctx: &str) {
        // every argument, the infinities included: NaN from quantile, 0 from cdf
        let q = [0.5, 0.0, 1.0].iter().map(|&q| d.quantile(q)).find(|v| !v.is_nan()).unwrap_or(f64::NAN);
        let c = [0.0, f64::NEG_INFINITY, f64::INFINITY, f64::MAX, f64::MIN, 1.0].iter().map(|&x| d.cdf(x)).find(|&v| v != 0.0).unwrap_or(0.0);
        if !q.is_nan() || c != 0.0 || d.count() != 0.0 || !d.is_empty() || d.n_centroids() != 0 {
            self.viol.push(v(prop, format!("tdigest/{}/empty-reads", self.sname), self.step,
                format!("{}: empty digest returned quantile {}, cdf {}, count {}, is_empty {}", ctx, q, c, d.count(), d.is_empty())));
        }
    }

    /// the full check point: C04 rank accuracy and size, C15 shape invariants
    fn check_point(&mut self, d: &dyn DigDyn, a: &Agg) {
        let case = self.case;
        let s = self.sname;
        // the very first read after the preceding inserts, rotating over the kinds of read
        let first: Option<(u8, f64, f64)> = if a.n_ins == 0 {
            None
        } else {
            let mid = lerp(a.min, a.max, 0.37);
            Some(match self.step % 4 {
                0 => (0, 1.0, d.quantile(1.0)),
                1 => (1, a.max + (a.max.abs() + 1.0), d.cdf(a.max + (a.max.abs() + 1.0))),
                2 => (1, mid, d.cdf(mid)),
                _ => (0, 0.37, d.quantile(0.37)),
            })
        };
        self.check_aggregates(d, a, "check point");
        if let Some((k, arg, r1)) = first {
            let r2 = if k == 0 { d.quantile(arg) } else { d.cdf(arg) };
            if r1.to_bits() != r2.to_bits() {
                self.viol.push(v("C15", format!("tdigest/{}/read-not-repeatable", s), self.step,
                    format!("{}({}) returned {} as the first read after an insert and {} after other reads (no insert in between)", if k == 0 { "quantile" } else { "cdf" }, arg, r1, r2)));
                if self.mine() {
                    return;
                }
            }
            self.stats.probe("first_read_after_insert_checked");
        }
        if a.n_ins == 0 {
            self.check_empty(d, "C15", "check point");
            return;
        }
        let n = a.n_ins;
        let nc = d.n_centroids();
        if n_lt(n, case.delta) {
            self.stats.probe("n_lt_delta");
        }
        let mag = a.min.abs().max(a.max.abs());
        let range = a.max - a.min;
        let kappa = (a.sw / a.minw).max(1.0);
        // data spanning more than f64::MAX: only the quantile clauses are meaningful (the value-space
        // tolerance is taken from the magnitude, cdf interpolation over such a gap is degenerate)
        let extreme = !range.is_finite();
        // value-space tolerance: a centroid mean is a sum of up to kappa terms divided by its weight
        let tol_v = if extreme { 8.0 * ULP * kappa * mag } else { 8.0 * ULP * kappa * (mag + range) };
        if extreme {
            self.stats.probe("range_exceeds_f64_max");
        }
        if tol_v > 1e-3 * range && range > 0.0 {
            self.stats.probe("value_checks_ill_conditioned");
        }
        let tol_q = 8.0 * ULP * kappa;
        // "a few ulps of the data range ... scaled by total weight over smallest weight": the mean of a fused
        // centroid is a sum of up to kappa terms divided by its weight
        let eps = 8.0 * ULP * mag * kappa;

        // ---- C04 (unit weights only)
        let mut sorted: Vec<f64> = Vec::new();
        if a.unit {
            if nc as f64 > case.delta + 3.0 {
                self.viol.push(v("C04", format!("tdigest/{}/too-many-centroids", s), self.step,
                    format!("{} centroids after {} unit-weight inserts with delta = {}", nc, n, case.delta)));
            }
            sorted = a.vals.iter().map(|t| t.0).collect();
            sorted.sort_by(|x, y| x.total_cmp(y));
        }
        let nf = n as f64;
        let le = |x: f64| sorted.partition_point(|&y| y <= x) as f64 / nf; // F(x)
        let lt = |x: f64| sorted.partition_point(|&y| y < x) as f64 / nf; // F(x-)
        let w = cluster_width(case.scale, case.delta, n);
        let c = if case.smooth { 1.0 } else { 3.0 };
        let grid = Self::q_grid(n);

        // ---- quantile sweep
        let mut prev = f64::NEG_INFINITY;
        let mut worst_rank: f64 = 0.0;
        let mut qs = Vec::with_capacity(grid.len());
        for &q in &grid {
            let val = d.quantile(q);
            qs.push(val);
            if !(val >= prev - tol_v) {
                self.viol.push(v("C15", format!("tdigest/{}/quantile-not-monotone", s), self.step,
                    format!("quantile({}) = {} < quantile of a smaller q = {}", q, val, prev)));
                if self.mine() {
                    return;
                }
            }
            if !(val >= a.min - tol_v && val <= a.max + tol_v) {
                self.viol.push(v("C15", format!("tdigest/{}/quantile-out-of-range", s), self.step,
                    format!("quantile({}) = {} outside [min, max] = [{}, {}]", q, val, a.min, a.max)));
                if self.mine() {
                    return;
                }
            }
            prev = prev.max(val);
            if a.unit {
                if let Some(w) = w {
                    let (lo, hi) = (lt(val - eps), le(val + eps));
                    let dist = if q < lo { lo - q } else if q > hi { q - hi } else { 0.0 };
                    let allowed = c * w + 2.0 / nf;
                    worst_rank = worst_rank.max(dist / allowed);
                    if dist > allowed {
                        self.viol.push(v("C04", format!("tdigest/{}/quantile-rank-error", s), self.step,
                            format!("n = {}, delta = {}, backlog = {}, pattern {}: quantile({}) = {:e} has empirical rank in [{:.6}, {:.6}], off by {:.6} > {} W + 2/n = {:.6}",
                                n, case.delta, case.backlog, case.pattern, q, val, lo, hi, dist, c, allowed)));
                        if self.mine() {
                    return;
                }
                    }
                }
            }
        }
        let (q0, q1) = (qs[0], qs[qs.len() - 1]);
        if (q0 - a.min).abs() > tol_v {
            self.viol.push(v("C15", format!("tdigest/{}/quantile0-not-min", s), self.step, format!("quantile(0) = {}, min() = {}", q0, a.min)));
        }
        if (q1 - a.max).abs() > tol_v {
            self.viol.push(v("C15", format!("tdigest/{}/quantile1-not-max", s), self.step,
                format!("quantile(1) = {}, max() = {} ({} centroids, n = {})", q1, a.max, nc, n)));
        }
        // probe: is the outermost right centroid fused (weight > 1) and not alone?
        if nc > 1 && d.quantile((1.0 - 0.25 / a.sw).clamp(0.0, 1.0)) < a.max - tol_v {
            self.stats.probe("fused_centroid_at_tail");
        }
        if self.mine() || extreme {
            return;
        }
        if qs.iter().any(|x| x.is_nan()) {
            // (a quantile that is NaN has been reported above under C15; the cdf clauses take these
            // values as arguments, and NaN is not a legal argument of cdf)
            return;
        }

        // ---- cdf sweep: 200 points across [min, max], the extremes, and points outside
        let margin = (2.0 * eps).max(f64::MIN_POSITIVE);
        let mut xs: Vec<f64> = vec![f64::NEG_INFINITY, f64::INFINITY, a.min - range.max(1.0) - margin, a.min - 2.0 * margin, a.min, a.max, a.max + 2.0 * margin, a.max + range.max(1.0) + margin];
        for i in 1..200 {
            xs.push(lerp(a.min, a.max, i as f64 / 200.0));
        }
        for &val in qs.iter().step_by(8) {
            xs.push(val);
        }
        xs.sort_by(|x, y| x.total_cmp(y));
        let mut prevc = f64::NEG_INFINITY;
        for &x in &xs {
            let cv = d.cdf(x);
            if !(cv >= prevc - tol_q) {
                self.viol.push(v("C15", format!("tdigest/{}/cdf-not-monotone", s), self.step, format!("cdf({}) = {} < cdf of a smaller x = {}", x, cv, prevc)));
                if self.mine() {
                    return;
                }
            }
            prevc = prevc.max(cv);
            if !(cv >= -tol_q && cv <= 1.0 + tol_q) {
                self.viol.push(v("C15", format!("tdigest/{}/cdf-out-of-range", s), self.step, format!("cdf({}) = {}", x, cv)));
                if self.mine() {
                    return;
                }
            }
            if x < a.min && cv != 0.0 {
                self.viol.push(v("C15", format!("tdigest/{}/cdf-below-min", s), self.step, format!("cdf({}) = {} for x < min() = {}", x, cv, a.min)));
                if self.mine() {
                    return;
                }
            }
            if x >= a.max && (cv - 1.0).abs() > tol_q {
                self.viol.push(v("C15", format!("tdigest/{}/cdf-from-max", s), self.step, format!("cdf({}) = {} for x >= max() = {}", x, cv, a.max)));
                if self.mine() {
                    return;
                }
            }
            if a.unit && x >= a.min && x <= a.max {
                if let Some(w) = w {
                    let (lo, hi) = (lt(x - eps), le(x + eps));
                    let dist = if cv < lo { lo - cv } else if cv > hi { cv - hi } else { 0.0 };
                    let allowed = c * w + 2.0 / nf;
                    if dist > allowed {
                        self.viol.push(v("C04", format!("tdigest/{}/cdf-rank-error", s), self.step,
                            format!("n = {}, delta = {}, backlog = {}, pattern {}: cdf({:e}) = {:.6}, empirical CDF there is [{:.6}, {:.6}], off by {:.6} > {} W + 2/n = {:.6}",
                                n, case.delta, case.backlog, case.pattern, x, cv, lo, hi, dist, c, allowed)));
                        if self.mine() {
                    return;
                }
                    }
                }
            }
        }
        // ---- exact ties: cdf at the data values themselves, literal reading of the statement.
        // Only where floating point plays no part: unit weights and small integer values, so that
        // every centroid sum is exact and a centroid holding copies of one value has exactly that
        // value as its mean. (For other data the interval reading above is the sound one: a fused
        // mean that is an ulp off moves the probe across the whole tie.)
        if a.unit && sorted.iter().all(|y| y.fract() == 0.0 && y.abs() <= 1_048_576.0) {
            if let Some(w) = w {
                let allowed = 3.0 * w + 2.0 / nf;
                let mut distinct: Vec<f64> = sorted.clone();
                distinct.dedup();
                if distinct.len() <= 64 {
                    self.stats.probe("cdf_at_exact_tie_values");
                    for &x in &distinct {
                        let cv = d.cdf(x);
                        let dist = (cv - le(x)).abs();
                        if std::env::var("PDSIM_CALIB").ok().and_then(|t| t.parse::<f64>().ok()).map_or(false, |t| dist - 2.0 / nf > t * w) {
                            eprintln!("CALIB tie ratio {:.3} scale {} n {} delta {} backlog {} pattern {} x {} cv {} F {}", (dist - 2.0 / nf) / w, s, n, case.delta, case.backlog, case.pattern, x, cv, le(x));
                        }
                        if dist > allowed {
                            self.viol.push(v("C04", format!("tdigest/{}/cdf-rank-error-at-tie", s), self.step,
                                format!("n = {}, delta = {}, backlog = {}, pattern {}: cdf({}) = {:.6}, the fraction of inserted values <= {} is {:.6}, off by {:.6} > 3 W + 2/n = {:.6}",
                                    n, case.delta, case.backlog, case.pattern, x, cv, x, le(x), dist, allowed)));
                            if self.mine() {
                                return;
                            }
                            break;
                        }
                    }
                }
            }
        }
        self.stats.probe_n("rank_error_used_permille_max", 0);
        let _ = worst_rank;

        // ---- repeated reads
        for &q in &[0.0, 0.3, 0.77, 1.0] {
            let (r1, r2) = (d.quantile(q), d.quantile(q));
            let x = lerp(a.min, a.max, q);
            let (c1, c2) = (d.cdf(x), d.cdf(x));
            if r1.to_bits() != r2.to_bits() || c1.to_bits() != c2.to_bits() {
                self.viol.push(v("C15", format!("tdigest/{}/read-not-repeatable", s), self.step, format!("two consecutive reads at {} returned {} / {} and {} / {}", q, r1, r2, c1, c2)));
                if self.mine() {
                    return;
                }
            }
        }

        // ---- cdf(quantile(q)) against q
        if tol_q <= 1e-3 {
            // mass of data indistinguishable from a value (needs the sorted data; weighted runs use
            // the weighted mass)
            let mut wsorted: Vec<(f64, f64)> = Vec::new();
            if !a.unit {
                wsorted = a.vals.clone();
                wsorted.sort_by(|x, y| x.0.total_cmp(&y.0));
            }
            // values the digest cannot tell apart: centroid means carry up to kappa accumulated roundings
            let eps2 = 8.0 * tol_v;
            let mass = |val: f64| -> f64 {
                if a.unit {
                    le(val + eps2) - lt(val - eps2)
                } else {
                    let lo = wsorted.partition_point(|t| t.0 < val - eps2);
                    let hi = wsorted.partition_point(|t| t.0 <= val + eps2);
                    wsorted[lo..hi].iter().map(|t| t.1).sum::<f64>() / a.sw
                }
            };
            for (i, &q) in grid.iter().enumerate() {
                let val = qs[i];
                let back = d.cdf(val);
                let t = mass(val);
                let allowed = if case.generic {
                    t + 1e-6 + 64.0 * tol_q
                } else {
                    // lattice data: centroid means may coincide without the data being tied
                    let wlat = w.unwrap_or(1.0);
                    t + 2.0 * wlat + 2.0 / nf + 64.0 * tol_q
                };
                if !((back - q).abs() <= allowed) {
                    let tail = if q > 0.5 { "right" } else { "left" };
                    self.viol.push(v("C15", format!("tdigest/{}/cdf-quantile-inconsistent/{}", s, tail), self.step,
                        format!("n = {}, {} centroids, delta = {}, pattern {}: quantile({}) = {}, cdf of that = {} (allowed difference {:.3e})", n, nc, case.delta, case.pattern, q, val, back, allowed)));
                    if self.mine() {
                    return;
                }
                }
            }
        } else {
            self.stats.probe("q_space_checks_skipped_ill_conditioned");
        }
    }

    fn body(&mut self) {
        let case = self.case;
        let mut d = build_digest(case.scale, case.delta, case.backlog);
        let mut a = Agg::new();
        self.stats.sig(case.scale as u64);
        self.stats.sig((case.delta * 10.0) as u64);
        self.stats.sig(case.backlog as u64);
        if case.pattern == "huge-symmetric-singletons" || case.pattern == "distinct-subnormals" {
            self.stats.probe("numeric_extreme_pattern");
        }
        self.check_empty(d.as_ref(), "C15", "fresh digest");
        let mut forks: Vec<(Box<dyn DigDyn>, [u64; 6], usize)> = vec![];
        let mut since_compact = 0usize;
        let observe = |d: &dyn DigDyn| -> [u64; 6] {
            [d.count().to_bits(), d.sum().to_bits(), d.quantile(0.5).to_bits(), d.cdf(0.0).to_bits(), d.min().to_bits(), d.max().to_bits()]
        };
        for (i, op) in case.ops.iter().enumerate() {
            self.step = i + 1;
            match *op {
                DOp::Ins(x) => {
                    d.insert_weighted(x, 1.0);
                    a.add(x, 1.0);
                    self.stats.steps += 1;
                    since_compact += 1;
                    if since_compact > case.backlog {
                        self.stats.fault("compact_by_overflow");
                        since_compact = 0;
                    }
                }
                DOp::InsW(x, w) => {
                    if w == 0.0 {
                        // zero-weight inserts change nothing (C16)
                        let before = (d.is_empty(), d.min().to_bits(), d.max().to_bits());
                        d.insert_weighted(x, 0.0);
                        self.stats.fault("zero_weight");
                        let after = (d.is_empty(), d.min().to_bits(), d.max().to_bits());
                        if before != after {
                            self.viol.push(v("C16", format!("tdigest/{}/zero-weight-changed-state", self.sname), self.step,
                                format!("insert_weighted({}, 0) changed is_empty/min/max from {:?} to {:?}", x, before, after)));
                        }
                        self.check_aggregates(d.as_ref(), &a, "after a zero-weight insert");
                        since_compact = 0;
                    } else {
                        d.insert_weighted(x, w);
                        a.add(x, w);
                        since_compact += 1;
                        if since_compact > case.backlog {
                            self.stats.fault("compact_by_overflow");
                            since_compact = 0;
                        }
                    }
                    self.stats.steps += 1;
                }
                DOp::Read(kind, pos) => {
                    self.stats.steps += 1;
                    self.stats.sig(100 + kind as u64);
                    if kind < 6 && since_compact > 0 {
                        self.stats.fault("compact_by_read");
                        since_compact = 0;
                    }
                    // the read is the first one after the preceding inserts: whatever it returns must be
                    // what the same read returns again after other reads (no insert in between)
                    let mut first: Option<(u8, f64, f64)> = None;
                    match kind {
                        0 => {
                            let q = pos.clamp(0.0, 1.0);
                            first = Some((0, q, d.quantile(q)));
                        }
                        1 => {
                            let x = if a.n_ins == 0 { pos } else { lerp(a.min, a.max, pos * 1.2 - 0.1) };
                            first = Some((1, x, d.cdf(x)));
                        }
                        2 | 3 | 4 => {
                            // the aggregate itself is the first read: checked against the model below
                            self.first_aggregate = Some(kind - 2);
                        }
                        5 => {
                            let nc = d.n_centroids();
                            if a.unit && nc as f64 > case.delta + 3.0 {
                                self.viol.push(v("C04", format!("tdigest/{}/too-many-centroids", self.sname), self.step,
                                    format!("{} centroids after {} unit-weight inserts with delta = {}", nc, a.n_ins, case.delta)));
                            }
                        }
                        _ => {}
                    }
                    self.check_aggregates(d.as_ref(), &a, "read");
                    if let Some((k, arg, r1)) = first {
                        let r2 = if k == 0 { d.quantile(arg) } else { d.cdf(arg) };
                        if r1.to_bits() != r2.to_bits() {
                            self.viol.push(v("C15", format!("tdigest/{}/read-not-repeatable", self.sname), self.step,
                                format!("{}({}) returned {} as the first read after an insert and {} after count()/sum()/mean() were read in between (no insert in between)", if k == 0 { "quantile" } else { "cdf" }, arg, r1, r2)));
                        }
                    }
                    since_compact = 0;
                }
                DOp::Check => {
                    self.stats.steps += 1;
                    if since_compact > 0 {
                        self.stats.fault("compact_by_read");
                        since_compact = 0;
                    }
                    self.check_point(d.as_ref(), &a);
                }
                DOp::Clear => {
                    d.clear();
                    a = Agg::new();
                    since_compact = 0;
                    self.stats.fault("node_restart");
                    // C16: "since creation or clear" - the aggregates restart from nothing
                    self.check_aggregates(d.as_ref(), &a, "after clear()");
                    self.check_empty(d.as_ref(), "C19", "after clear()");
                    self.check_empty(d.as_ref(), "C15", "after clear()");
                }
                DOp::CloneFromInto { delta, backlog, pending } => {
                    let mut scratch = build_digest(case.scale, delta, backlog);
                    for j in 0..pending {
                        scratch.insert_weighted(1e6 + j as f64, 2.5);
                    }
                    if scratch.clone_from_dyn(d.as_ref()) {
                        self.stats.fault("fork");
                        self.stats.probe("clone_from_onto_pending_backlog");
                        d = scratch;
                        since_compact = 0;
                        // every oracle now applies to the copy: aggregates here, the rest at the next check point
                        self.check_aggregates(d.as_ref(), &a, "after clone_from onto a digest with a pending backlog");
                    }
                }
                DOp::Rejected(x, w) => {
                    let before = (d.is_empty(), d.min().to_bits(), d.max().to_bits());
                    let target = &mut d;
                    match guarded(|| target.insert_weighted(x, w)) {
                        Caught::LibPanic(..) => self.stats.probe("rejected_insert_panicked"),
                        Caught::Ok(()) => {
                            // accepted after all (w = -0.0 counts as zero weight): nothing to compare
                            self.stats.probe("rejected_insert_accepted");
                        }
                    }
                    let after = (d.is_empty(), d.min().to_bits(), d.max().to_bits());
                    if before != after && !(w >= 0.0 && w.is_finite() && w > 0.0) {
                        self.viol.push(v("C16", format!("tdigest/{}/rejected-insert-changed-state", self.sname), self.step,
                            format!("insert_weighted({}, {}) was rejected, yet is_empty/min/max changed from {:?} to {:?}", x, w, before, after)));
                    }
                    self.check_aggregates(d.as_ref(), &a, "after a rejected insert");
                    since_compact = 0;
                }
                DOp::Fork => {
                    self.stats.fault("fork");
                    let g = d.fork();
                    let o = observe(g.as_ref());
                    let o2 = observe(d.as_ref());
                    if o != o2 {
                        self.viol.push(v("C19", format!("tdigest/{}/clone/differs-at-fork", self.sname), self.step, "clone answers differently from the original at the time of cloning".into()));
                    }
                    forks.push((g, o, self.step));
                    since_compact = 0;
                }
            }
            if self.mine() {
                return;
            }
        }
        self.step = case.ops.len() + 1;
        self.check_point(d.as_ref(), &a);
        for (g, o, at) in forks {
            if observe(g.as_ref()) != o {
                self.viol.push(v("C19", format!("tdigest/{}/clone/not-independent", self.sname), self.step, format!("clone taken at step {} changed after the original was mutated", at)));
            }
        }
    }
}

/// overflow-free interpolation between two finite values (never NaN)
fn lerp(a: f64, b: f64, t: f64) -> f64 {
    let x = a * (1.0 - t) + b * t;
    if x.is_nan() {
        a
    } else {
        x
    }
}

fn n_lt(n: usize, delta: f64) -> bool {
    (n as f64) < delta
}

// ---------------------------------------------------------------------------
// generation

pub const DELTAS: [f64; 10] = [1.1, 1.5, 2.0, 5.0, 10.0, 20.0, 50.0, 100.0, 200.0, 1000.0];

fn gen_values(g: &mut Sm, n: usize) -> (Vec<f64>, String, bool, bool) {
    // returns (values in arrival order, pattern name, smooth, generic)
    let offset = if g.chance(1, 3) { (g.f64() - 0.5) * 200.0 } else { 0.0 };
    let scale = 10f64.powf(g.f64() * 6.0 - 3.0);
    let pat = g.below(14);
    let mut vals: Vec<f64> = Vec::with_capacity(n);
    let (name, smooth, generic): (&str, bool, bool) = match pat {
        0 | 1 => {
            for _ in 0..n {
                vals.push(g.f64());
            }
            ("iid-uniform", true, true)
        }
        2 | 3 => {
            for _ in 0..n {
                vals.push(g.normal());
            }
            ("iid-normal", true, true)
        }
        4 => {
            for _ in 0..n {
                vals.push(-(1.0 - g.f64()).ln());
            }
            ("iid-exponential", true, true)
        }
        5 => {
            for _ in 0..n {
                vals.push((g.normal() * 2.0).exp());
            }
            ("iid-lognormal-heavy-tail", false, true)
        }
        6 => {
            for _ in 0..n {
                vals.push(g.f64());
            }
            vals.sort_by(|a, b| a.total_cmp(b));
            ("uniform-sorted-arrival", false, true)
        }
        7 => {
            for _ in 0..n {
                vals.push(g.normal());
            }
            vals.sort_by(|a, b| b.total_cmp(a));
            ("normal-reverse-sorted-arrival", false, true)
        }
        8 => {
            // alternating extremes closing in on the middle
            for i in 0..n {
                let t = (i / 2) as f64 / n.max(1) as f64;
                vals.push(if i % 2 == 0 { t } else { 1.0 - t });
            }
            ("alternating-extremes", false, false)
        }
        9 => {
            let period = g.range(2, 50) as usize;
            for i in 0..n {
                vals.push((i % period) as f64);
            }
            ("sawtooth-integers", false, false)
        }
        10 => {
            let distinct = g.range(1, 10);
            for _ in 0..n {
                vals.push(g.below(distinct) as f64);
            }
            // a third in random order (runs of one or two), a third sorted (every value arrives
            // as one long run of consecutive equal inserts), a third as a plateau inside
            // continuous data that arrives sorted
            match g.below(3) {
                0 => {}
                1 => vals.sort_by(|a, b| a.total_cmp(b)),
                _ => {
                    let share = 0.1 + 0.6 * g.f64();
                    for x in vals.iter_mut() {
                        if g.f64() >= share {
                            *x = g.f64() * distinct as f64;
                        } else {
                            *x = (distinct / 2) as f64;
                        }
                    }
                    if g.chance(1, 2) {
                        vals.sort_by(|a, b| a.total_cmp(b));
                    } else {
                        vals.sort_by(|a, b| b.total_cmp(a));
                    }
                }
            }
            ("few-distinct-values", false, false)
        }
        11 => {
            // two clusters with a cliff between them
            let frac = g.f64();
            for _ in 0..n {
                vals.push(if g.f64() < frac { g.f64() * 0.01 } else { 1.0 + g.f64() });
            }
            ("two-clusters-cliff", false, true)
        }
        12 => {
            let c = (g.below(2000) as f64) - 1000.0;
            for _ in 0..n {
                vals.push(c);
            }
            ("constant", false, false)
        }
        _ => {
            for i in 0..n {
                vals.push(i as f64);
            }
            ("sorted-integers", false, false)
        }
    };
    // affine map; keep |offset| <= 100 * range so that "ulps of the data range" stays meaningful
    // (half of the integer-valued patterns stay as they are: exact ties, exact centroid sums)
    let constant = name == "constant" || (matches!(name, "few-distinct-values" | "sawtooth-integers" | "sorted-integers") && g.chance(1, 2));
    for x in vals.iter_mut() {
        *x = if constant { *x } else { *x * scale + offset * scale };
    }
    (vals, name.to_string(), smooth, generic)
}

impl Scenario for S4 {
    type Case = DigestCase;
    const NAME: &'static str = "S4-digest";
    const RULE: &'static str = "scale function x delta in {1.1..1000} x backlog in {0,1,2,5,10,100,1000,n+1} x n x one of 14 arrival patterns, with reads (each of which may compact) injected at a per-run rate and full oracle check points; the exact sorted multiset is the reference";

    fn generate(seed: u64, _run: u64, prop: &'static str, tier: Tier) -> DigestCase {
        let mut g = Sm::new(seed);
        let scale = g.below(4) as u8;
        let delta = if g.chance(1, 10) { 1.01 + g.f64() * 300.0 } else { *g.pick(&DELTAS) };
        let nmax: u64 = if tier == Tier::Thorough { 100_000 } else { 20_000 };
        let mut n = match g.below(10) {
            0 => g.range(1, 5),
            1..=3 => g.range(1, 200),
            4..=7 => g.range(100, 3000),
            _ => g.range(1000, nmax),
        } as usize;
        let backlog = match g.below(8) {
            0 => 0,
            1 => 1,
            2 => 2,
            3 => 5,
            4 => 10,
            5 => 100,
            6 => 1000,
            _ => n + 1,
        };
        // cost guard: every compaction sorts delta + backlog centroids
        let per_insert = (delta + backlog as f64) / (backlog as f64 + 1.0);
        let budget = if tier == Tier::Thorough { 2.0e7 } else { 4.0e6 };
        if (n as f64) * per_insert > budget {
            n = (budget / per_insert) as usize;
        }
        let n = n.max(1);
        let (mut vals, mut pattern, mut smooth, mut generic) = gen_values(&mut g, n);
        let (mut scale, mut delta, mut n) = (scale, delta, n);
        let extreme_for_c15 = prop == "C15" && g.chance(1, 40);
        if (prop == "C04" && g.chance(1, 25)) || extreme_for_c15 {
            // numeric extremes; only C04's rank-space oracle is meaningful for them (value-space
            // tolerances overflow / underflow), so the other digest checks do not get these
            if extreme_for_c15 || g.chance(1, 2) {
                // distinct values within 2 % of +-f64::MAX/1.8: neighbours are more than f64::MAX apart.
                // Fused sums would overflow on any implementation, so the digest is kept in the regime
                // where every centroid is a singleton (K0 / K1, delta 1000, n <= 240).
                scale = g.below(2) as u8;
                delta = 1000.0;
                n = g.range(20, 240) as usize;
                vals = (0..n).map(|i| (1e308 + (i / 2) as f64 * 5e305) * if i % 2 == 0 { 1.0 } else { -1.0 }).collect();
                g.shuffle(&mut vals);
                pattern = "huge-symmetric-singletons".into();
            } else {
                // distinct subnormal values: differences below f64::MIN_POSITIVE, sums exact
                n = n.min(5000).max(50);
                let mut ks: Vec<u64> = (0..n).map(|_| 1 + g.below(1_000_000_000_000)).collect();
                ks.sort();
                ks.dedup();
                g.shuffle(&mut ks);
                vals = ks.iter().map(|k| f64::from_bits(*k)).collect();
                n = vals.len();
                pattern = "distinct-subnormals".into();
            }
            smooth = false;
            generic = true;
        }
        let weighted = prop != "C04" && !extreme_for_c15 && g.chance(1, 2);
        let wspan = if prop == "C16" { 6.0 } else { 1.5 };
        // C16 only (aggregates are stated for every positive weight); every run of such a digest is
        // ill-conditioned for the rank checks, which C15 / C04 therefore do not get
        let tiny_weights = prop == "C16" && g.chance(1, 6);
        // a common factor on all weights (total weight over smallest weight is unchanged): products of a
        // centroid's sum and another one's count then overflow / underflow f64 although every sum, count and
        // mean is perfectly representable
        let overflow_one_sided = prop == "C16" && weighted && !tiny_weights && g.chance(1, 12);
        let wfactor: f64 = if weighted && !tiny_weights && g.chance(1, 8) { *g.pick(&[1e160, 1e-170, 1e120, 1e-100]) } else { 1.0 };
        let read_rate = *g.pick(&[0u64, 0, 1, 5, 20, 100, 500, 1000]); // per mille, per insert
        let n_checks = g.range(0, 3);
        let mut check_at: Vec<usize> = (0..n_checks).map(|_| g.usize(n)).collect();
        check_at.sort();
        let zero_rate = if prop == "C16" || prop == "C15" { *g.pick(&[0u64, 0, 10, 100]) } else { 0 };
        let restart_at = if prop != "C04" && g.chance(1, 3) { Some(g.usize(n)) } else { None };
        let clone_from_at = if g.chance(1, 4) { Some(g.usize(n)) } else { None };
        let rejected_at = if prop == "C16" && g.chance(1, 5) { Some(g.usize(n)) } else { None };
        let mut ops = Vec::with_capacity(n + n / 4 + 8);
        for (i, &x) in vals.iter().enumerate() {
            if weighted {
                let w = if g.chance(1, 4) {
                    1.0
                } else if tiny_weights && g.chance(1, 10) {
                    // far below f64::EPSILON, down to subnormal: still a positive weight
                    *g.pick(&[1e-17, 3e-20, 1e-100, 1e-300, 5e-324, 2.2e-16])
                } else {
                    10f64.powf((g.f64() * 2.0 - 1.0) * wspan)
                };
                if overflow_one_sided && g.chance(1, 20) {
                    // value times weight exceeds f64::MAX (positive side only): sum() and mean() are
                    // lost to overflow, count(), min(), max() and is_empty() are not
                    ops.push(DOp::InsW(1e300 * (1.0 + g.f64()), 1e10 * (1.0 + g.f64())));
                } else {
                    ops.push(DOp::InsW(if tiny_weights && g.chance(1, 50) { -0.0 } else { x }, w * wfactor));
                }
            } else {
                ops.push(DOp::Ins(x));
            }
            if zero_rate > 0 && g.below(1000) < zero_rate {
                ops.push(DOp::InsW(g.normal() * 1e6, 0.0));
            }
            if read_rate > 0 && g.below(1000) < read_rate {
                ops.push(DOp::Read(g.below(7) as u8, g.f64()));
            }
            if check_at.contains(&i) {
                ops.push(DOp::Check);
            }
            if prop != "C04" && g.chance(1, 4000) {
                ops.push(if g.chance(1, 2) { DOp::Clear } else { DOp::Fork });
            }
            if clone_from_at == Some(i) {
                ops.push(DOp::CloneFromInto { delta: *g.pick(&DELTAS), backlog: *g.pick(&[0usize, 3, 17, 1000]), pending: g.below(6) as u8 });
            }
            if rejected_at == Some(i) {
                ops.push(DOp::Rejected(g.normal() * 1e4, *g.pick(&[-1.0, f64::NAN, f64::INFINITY, -1e-300, f64::NEG_INFINITY])));
            }
            // C16 / C15: one restart in the middle of a third of the runs, after a read has compacted
            if restart_at == Some(i) {
                ops.push(DOp::Read(g.below(6) as u8, g.f64()));
                ops.push(DOp::Clear);
            }
        }
        DigestCase { scale, delta, backlog, smooth, generic, pattern, ops }
    }

    fn execute(case: &DigestCase, prop: &'static str) -> Outcome {
        let mut ex = Exec { case, prop, sname: scale_name(case.scale), stats: RunStats::default(), viol: vec![], step: 0, first_aggregate: None };
        let r = guarded(|| ex.body());
        if let Caught::LibPanic(loc, msg) = r {
            let class = format!("tdigest/{}/panic/{}", ex.sname, panic_site(&loc));
            ex.viol.push(Violation { property: prop, class, step: ex.step, detail: format!("panic at {}: {}", loc, msg) });
        }
        Outcome { stats: ex.stats, violations: ex.viol.into_iter().filter(|x| x.property == prop).collect() }
    }

    fn shrink(case: &DigestCase) -> Vec<DigestCase> {
        let mut out = vec![];
        for ops in shrink_vec(&case.ops).into_iter().take(400) {
            let mut c = case.clone();
            c.ops = ops;
            out.push(c);
        }
        // drop all reads / zero weights at once
        let no_reads: Vec<DOp> = case.ops.iter().filter(|o| !matches!(o, DOp::Read(..))).cloned().collect();
        if no_reads.len() < case.ops.len() {
            let mut c = case.clone();
            c.ops = no_reads;
            out.push(c);
        }
        // simpler values: round to few digits
        let rounded: Vec<DOp> = case
            .ops
            .iter()
            .map(|o| match o {
                DOp::Ins(x) => DOp::Ins((x * 1000.0).round() / 1000.0),
                DOp::InsW(x, w) => DOp::InsW((x * 1000.0).round() / 1000.0, if *w == 0.0 { 0.0 } else { ((w * 100.0).round() / 100.0).max(0.01) }),
                x => x.clone(),
            })
            .collect();
        if serde_json::to_string(&rounded).ok() != serde_json::to_string(&case.ops).ok() && !case.generic {
            let mut c = case.clone();
            c.ops = rounded;
            out.push(c);
        }
        if case.backlog > 0 {
            for b in [0, case.backlog / 2] {
                if b < case.backlog {
                    let mut c = case.clone();
                    c.backlog = b;
                    out.push(c);
                }
            }
        }
        out
    }

    fn describe(case: &DigestCase) -> Value {
        let ops: Vec<Value> = case.ops.iter().take(16).map(|o| serde_json::to_value(o).unwrap()).collect();
        json!({"scale": scale_name(case.scale), "delta": case.delta, "backlog": case.backlog, "pattern": case.pattern,
               "smooth": case.smooth, "generic": case.generic, "n_ops": case.ops.len(), "first_ops": ops})
    }
}
