//! Uniform wrapper over the four `Filter` implementations, instantiated with the simulator's
//! hasher and RNG. Keys are `u64`.
use crate::hasher::SimHasher;
use crate::rng::{RngProbe, SimRng};
use pdatastructs::filters::bloomfilter::BloomFilter;
use pdatastructs::filters::cuckoofilter::CuckooFilter;
use pdatastructs::filters::quotientfilter::QuotientFilter;
use pdatastructs::filters::Filter;
use serde::{Deserialize, Serialize};
use std::collections::HashSet;

#[derive(Clone, Debug, PartialEq, Eq, Serialize, Deserialize)]
pub enum FKind {
    Bloom { m: usize, k: usize },
    Cuckoo { bucketsize: usize, n_buckets: usize, l_fp: usize },
    Quotient { q: usize, r: usize },
    Set,
}

impl FKind {
    pub fn name(&self) -> &'static str {
        match self {
            FKind::Bloom { .. } => "bloom",
            FKind::Cuckoo { .. } => "cuckoo",
            FKind::Quotient { .. } => "quotient",
            FKind::Set => "hashset",
        }
    }
    pub fn has_classes(&self) -> bool {
        matches!(self, FKind::Cuckoo { .. } | FKind::Quotient { .. })
    }
    /// number of slots (cuckoo, quotient)
    pub fn capacity(&self) -> usize {
        match self {
            FKind::Cuckoo { bucketsize, n_buckets, .. } => bucketsize * n_buckets,
            FKind::Quotient { q, .. } => 1usize << q,
            _ => usize::MAX,
        }
    }
}

pub enum AnyFilter {
    Bloom(BloomFilter<u64, SimHasher>),
    Cuckoo(CuckooFilter<u64, SimRng, SimHasher>, RngProbe),
    Quotient(QuotientFilter<u64, SimHasher>),
    Set(HashSet<u64, SimHasher>),
}

impl AnyFilter {
    pub fn build(kind: &FKind, hasher: SimHasher, rng_seed: u64, tape: &[(u64, u64)]) -> Self {
        Self::build_at(kind, hasher, rng_seed, tape, 0)
    }
    pub fn build_at(kind: &FKind, hasher: SimHasher, rng_seed: u64, tape: &[(u64, u64)], pos: u64) -> Self {
        match *kind {
            FKind::Bloom { m, k } => AnyFilter::Bloom(BloomFilter::with_params_and_hash(m, k, hasher)),
            FKind::Cuckoo { bucketsize, n_buckets, l_fp } => {
                let (rng, probe) = SimRng::new_at(rng_seed, tape, pos);
                AnyFilter::Cuckoo(
                    CuckooFilter::with_params_and_hash(rng, bucketsize, n_buckets, l_fp, hasher),
                    probe,
                )
            }
            FKind::Quotient { q, r } => AnyFilter::Quotient(QuotientFilter::with_params_and_hash(q, r, hasher)),
            FKind::Set => AnyFilter::Set(HashSet::with_hasher(hasher)),
        }
    }
    pub fn insert(&mut self, k: u64) -> Result<bool, ()> {
        match self {
            AnyFilter::Bloom(f) => f.insert(&k).map_err(|_| ()),
            AnyFilter::Cuckoo(f, _) => f.insert(&k).map_err(|_| ()),
            AnyFilter::Quotient(f) => f.insert(&k).map_err(|_| ()),
            AnyFilter::Set(f) => <HashSet<u64, SimHasher> as Filter<u64>>::insert(f, &k).map_err(|_| ()),
        }
    }
    pub fn delete(&mut self, k: u64) -> Option<bool> {
        match self {
            AnyFilter::Cuckoo(f, _) => Some(f.delete(&k)),
            _ => None,
        }
    }
    pub fn query(&self, k: u64) -> bool {
        match self {
            AnyFilter::Bloom(f) => f.query(&k),
            AnyFilter::Cuckoo(f, _) => f.query(&k),
            AnyFilter::Quotient(f) => f.query(&k),
            AnyFilter::Set(f) => <HashSet<u64, SimHasher> as Filter<u64>>::query(f, &k),
        }
    }
    pub fn len(&self) -> usize {
        match self {
            AnyFilter::Bloom(f) => f.len(),
            AnyFilter::Cuckoo(f, _) => f.len(),
            AnyFilter::Quotient(f) => f.len(),
            AnyFilter::Set(f) => <HashSet<u64, SimHasher> as Filter<u64>>::len(f),
        }
    }
    pub fn is_empty(&self) -> bool {
        match self {
            AnyFilter::Bloom(f) => f.is_empty(),
            AnyFilter::Cuckoo(f, _) => f.is_empty(),
            AnyFilter::Quotient(f) => f.is_empty(),
            AnyFilter::Set(f) => <HashSet<u64, SimHasher> as Filter<u64>>::is_empty(f),
        }
    }
    pub fn clear(&mut self) {
        match self {
            AnyFilter::Bloom(f) => f.clear(),
            AnyFilter::Cuckoo(f, _) => f.clear(),
            AnyFilter::Quotient(f) => f.clear(),
            AnyFilter::Set(f) => <HashSet<u64, SimHasher> as Filter<u64>>::clear(f),
        }
    }
    /// `self.union(other)`; both must be of the same variant (a harness bug otherwise).
    pub fn union(&mut self, other: &AnyFilter) -> Result<(), ()> {
        match (self, other) {
            (AnyFilter::Bloom(a), AnyFilter::Bloom(b)) => a.union(b).map_err(|_| ()),
            (AnyFilter::Cuckoo(a, _), AnyFilter::Cuckoo(b, _)) => a.union(b).map_err(|_| ()),
            (AnyFilter::Quotient(a), AnyFilter::Quotient(b)) => a.union(b).map_err(|_| ()),
            (AnyFilter::Set(a), AnyFilter::Set(b)) => {
                <HashSet<u64, SimHasher> as Filter<u64>>::union(a, b).map_err(|_| ())
            }
            _ => unreachable!("union of different filter kinds"),
        }
    }
    /// `Clone::clone` of the structure under test. For the cuckoo filter the clone owns a deep
    /// copy of the RNG position (see `SimRng::clone`); the returned wrapper's probe is the clone's.
    pub fn fork(&self) -> AnyFilter {
        match self {
            AnyFilter::Bloom(f) => AnyFilter::Bloom(f.clone()),
            AnyFilter::Cuckoo(f, p) => {
                let _ = crate::rng::take_last_clone_probe();
                let g = f.clone();
                // the library cloned its private `rng` field; fetch that clone's probe
                let np = crate::rng::take_last_clone_probe().unwrap_or_else(|| p.clone());
                AnyFilter::Cuckoo(g, np)
            }
            AnyFilter::Quotient(f) => AnyFilter::Quotient(f.clone()),
            AnyFilter::Set(f) => AnyFilter::Set(f.clone()),
        }
    }
    /// `Clone::clone_from`; false if the variants differ
    pub fn clone_from_other(&mut self, src: &AnyFilter) -> bool {
        match (self, src) {
            (AnyFilter::Bloom(a), AnyFilter::Bloom(b)) => a.clone_from(b),
            (AnyFilter::Cuckoo(a, pa), AnyFilter::Cuckoo(b, _)) => {
                let _ = crate::rng::take_last_clone_probe();
                a.clone_from(b);
                if let Some(p) = crate::rng::take_last_clone_probe() {
                    *pa = p;
                }
            }
            (AnyFilter::Quotient(a), AnyFilter::Quotient(b)) => a.clone_from(b),
            (AnyFilter::Set(a), AnyFilter::Set(b)) => a.clone_from(b),
            _ => return false,
        }
        true
    }
    pub fn rng_pos(&self) -> u64 {
        match self {
            AnyFilter::Cuckoo(_, p) => p.pos(),
            _ => 0,
        }
    }
    pub fn set_salt(&self, s: u64) {
        if let AnyFilter::Cuckoo(_, p) = self {
            p.set_salt(s)
        }
    }
}
