//! S9 — the less used public entry points, on the production types (default SipHash `BuildHasher`,
//! `BuildHasherSeeded`, `with_params` / `with_properties*` constructors, `Extend` impls, `AnyHash`,
//! `HashSet` through `filters::compat`). Each run builds the same content through two entry points
//! (element by element vs `extend`, `with_params` vs the `_and_hash` constructor, one transport order
//! vs another) and compares the observations; the per-structure invariants of C01 / C02 / C10 / C17
//! are evaluated on the production types as well.
use crate::framework::*;
use crate::rng::Sm;
use crate::s1_filters::shrink_vec;
use pdatastructs::countminsketch::CountMinSketch;
use pdatastructs::filters::bloomfilter::BloomFilter;
use pdatastructs::filters::cuckoofilter::CuckooFilter;
use pdatastructs::filters::quotientfilter::QuotientFilter;
use pdatastructs::filters::Filter;
use pdatastructs::hash_utils::{AnyHash, BuildHasherSeeded};
use pdatastructs::hyperloglog::HyperLogLog;
use pdatastructs::topk::cmsheap::CMSHeap;
use serde::{Deserialize, Serialize};
use serde_json::{json, Value};
use std::collections::hash_map::DefaultHasher;
use std::collections::{BTreeMap, BTreeSet, HashSet};
use std::hash::BuildHasherDefault;

#[derive(Clone, Debug, Serialize, Deserialize)]
pub struct EntryCase {
    /// 0 bloom, 1 cms, 2 hll, 3 cmsheap, 4 cuckoo with_properties, 5 hashset compat, 6 quotient default hasher,
    /// 7 element types other than integers (str, String, tuples, the unit type)
    pub which: u8,
    pub a: usize,
    pub b: usize,
    pub p_milli: u32,
    pub seed: usize,
    pub rng_seed: u64,
    pub keys: Vec<u64>,
    pub probes: Vec<u64>,
    /// size of the chunks handed to `extend`
    pub chunk: usize,
}

pub struct S9;

/// u64 keys whose default SipHash values agree in the upper 46 bits and differ in the low 18 (found
/// by a birthday search over 2^25 keys): under the production hasher they are distinct elements that
/// address different registers of a b = 18 sketch with the same rank. The precondition is re-checked
/// at run time, so a different std hasher only turns them into ordinary keys.
pub const SIP_RANK_TWINS: [(u64, u64); 11] = [
    (6554709, 29828862),
    (9546142, 22946482),
    (5512266, 32647891),
    (5347677, 17303921),
    (8383043, 32800386),
    (30331992, 32383622),
    (10849040, 27230547),
    (1438509, 4966417),
    (9965551, 17167420),
    (23120023, 28999471),
    (6509055, 29538399),
];

fn v(property: &'static str, class: &str, step: usize, detail: String) -> Violation {
    Violation { property, class: class.to_string(), step, detail }
}

impl Scenario for S9 {
    type Case = EntryCase;
    const NAME: &'static str = "S9-entry-points";
    const RULE: &'static str = "production types (default / seeded SipHash builders, with_params and with_properties constructors): the same keys delivered element by element and through Extend in chunks, through AnyHash, through the HashSet compat impl; observations of both instances must agree and the structure's own invariant (no false negative / count bounds / register equality / top-k cardinality) must hold";

    fn generate(seed: u64, run: u64, prop: &'static str, _tier: Tier) -> EntryCase {
        let mut g = Sm::new(seed);
        let which = match prop {
            "C02" => *g.pick(&[1u8, 1, 7]),
            "C17" => *g.pick(&[2u8, 2, 7]),
            "C10" => 3,
            "C13" => *g.pick(&[6u8, 6, 7]),
            "C14" => *g.pick(&[4u8, 4, 7]),
            _ => *g.pick(&[0u8, 4, 5, 6, 0, 4, 7, 7]),
        };
        let _ = run;
        let nk = match g.below(3) {
            0 => g.range(0, 8),
            1 => g.range(5, 80),
            _ => g.range(50, 600),
        } as usize;
        let small = g.chance(1, 2);
        let mut keys: Vec<u64> = (0..nk).map(|_| if small { g.below(64) } else { g.u64() }).collect();
        let mut a_override = None;
        if which == 2 && g.chance(1, 3) {
            // adjacent rank twins, in either order, somewhere in the stream; precision 18
            let (x, y) = *g.pick(&SIP_RANK_TWINS);
            let at = g.usize(keys.len() + 1);
            let (x, y) = if g.chance(1, 2) { (x, y) } else { (y, x) };
            keys.insert(at, y);
            keys.insert(at, x);
            a_override = Some(14); // b = 4 + 14 % 15 = 18
        }
        let probes: Vec<u64> = (0..g.range(4, 40)).map(|_| if small { g.below(200) } else { g.u64() }).collect();
        EntryCase {
            which,
            a: a_override.unwrap_or(g.range(1, 64) as usize),
            b: g.range(1, 8) as usize,
            p_milli: *g.pick(&[1u32, 10, 20, 100, 400]),
            seed: g.below(1000) as usize,
            rng_seed: g.u64(),
            keys,
            probes,
            chunk: g.range(1, 17) as usize,
        }
    }

    fn execute(case: &EntryCase, prop: &'static str) -> Outcome {
        let mut stats = RunStats::default();
        let mut viol: Vec<Violation> = vec![];
        stats.sig(case.which as u64);
        stats.sig(case.keys.len() as u64);
        stats.fault("production_hasher");
        let all: Vec<u64> = case.keys.iter().chain(case.probes.iter()).cloned().collect();
        let r = guarded(|| {
            match case.which {
                0 => {
                    // Bloom: with_params + insert vs with_params + extend vs seeded hasher vs AnyHash
                    let (m, k) = (case.a * 8, case.b.min(5));
                    let mut x = BloomFilter::<u64>::with_params(m, k);
                    let mut y = BloomFilter::<u64>::with_params(m, k);
                    for &key in &case.keys {
                        x.insert(&key).unwrap();
                    }
                    for ch in case.keys.chunks(case.chunk) {
                        y.extend(ch.iter().cloned());
                        stats.probe("via_extend");
                    }
                    stats.steps += case.keys.len() as u64;
                    for &q in &all {
                        if x.query(&q) != y.query(&q) {
                            viol.push(v("C01", "bloom/extend-differs-from-insert", 0, format!("query({}) differs between a filter filled by insert and one filled by extend", q)));
                            return;
                        }
                    }
                    if x.len() != y.len() || x.is_empty() != y.is_empty() {
                        viol.push(v("C01", "bloom/extend-differs-from-insert", 0, "len / is_empty differ between insert and extend".into()));
                        return;
                    }
                    for &key in &case.keys {
                        if !y.query(&key) {
                            viol.push(v("C01", "bloom/false-negative/extend", 0, format!("key {} added through extend is not reported", key)));
                            return;
                        }
                    }
                    // seeded builder: same seed -> union works and keeps everything
                    let mut s1 = BloomFilter::<u64, _>::with_params_and_hash(m, k, BuildHasherSeeded::new(case.seed));
                    let mut s2 = BloomFilter::<u64, _>::with_params_and_hash(m, k, BuildHasherSeeded::new(case.seed));
                    let half = case.keys.len() / 2;
                    for &key in &case.keys[..half] {
                        s1.insert(&key).unwrap();
                    }
                    for &key in &case.keys[half..] {
                        s2.insert(&key).unwrap();
                    }
                    s1.union(&s2).unwrap();
                    for &key in &case.keys {
                        if !s1.query(&key) {
                            viol.push(v("C01", "bloom/false-negative/seeded-union", 0, format!("key {} missing after union of two BuildHasherSeeded({}) filters", key, case.seed)));
                            return;
                        }
                    }
                    // two filters that agree in every published parameter but come from different
                    // constructors: sized by accuracy target vs by explicit parameters
                    if case.keys.len() >= 2 {
                        let p = case.p_milli as f64 / 1000.0;
                        let mut wp = BloomFilter::<u64>::with_properties(case.keys.len().max(4) * 4, p);
                        if wp.m() > 0 && wp.k() > 0 {
                            let mut ex = BloomFilter::<u64>::with_params(wp.m(), wp.k());
                            let mut wp2 = BloomFilter::<u64>::with_properties(case.keys.len().max(4) * 4, p);
                            let mut ex2 = BloomFilter::<u64>::with_params(wp.m(), wp.k());
                            for &key in &case.keys[..half] {
                                wp.insert(&key).unwrap();
                                ex2.insert(&key).unwrap();
                            }
                            for &key in &case.keys[half..] {
                                ex.insert(&key).unwrap();
                                wp2.insert(&key).unwrap();
                            }
                            wp.union(&ex).unwrap();
                            ex2.union(&wp2).unwrap();
                            stats.probe("cross_constructor_union");
                            for &key in &case.keys {
                                if !wp.query(&key) || !ex2.query(&key) {
                                    viol.push(v("C01", "bloom/false-negative/cross-constructor-union", 0, format!("with_properties({}, {}) and with_params({}, {}) filters: key {} missing after a successful union", case.keys.len().max(4) * 4, p, wp.m(), wp.k(), key)));
                                    return;
                                }
                            }
                        }
                    }
                    // AnyHash: different types in one filter
                    let mut ah = BloomFilter::<AnyHash>::with_params(m.max(64), k.max(1));
                    for &key in case.keys.iter().take(40) {
                        ah.insert(&AnyHash::new(&key)).unwrap();
                        ah.insert(&AnyHash::new(&format!("s{}", key))).unwrap();
                        ah.insert(&AnyHash::new(&(key as u8, key as i32))).unwrap();
                    }
                    for &key in case.keys.iter().take(40) {
                        if !ah.query(&AnyHash::new(&key)) || !ah.query(&AnyHash::new(&format!("s{}", key))) || !ah.query(&AnyHash::new(&(key as u8, key as i32))) {
                            viol.push(v("C01", "bloom/false-negative/anyhash", 0, format!("an AnyHash-wrapped value derived from {} is not reported", key)));
                            return;
                        }
                    }
                }
                1 => {
                    let (w, d) = (case.a, case.b);
                    let mut x = CountMinSketch::<u64>::with_params(w, d);
                    let mut y = CountMinSketch::<u64>::with_params(w, d);
                    let mut truth: BTreeMap<u64, usize> = BTreeMap::new();
                    for &key in &case.keys {
                        x.add(&key);
                        *truth.entry(key).or_insert(0) += 1;
                    }
                    for ch in case.keys.chunks(case.chunk) {
                        y.extend(ch.iter().cloned());
                        stats.probe("via_extend");
                    }
                    stats.steps += case.keys.len() as u64;
                    // two sketches that agree in w, d and hasher but come from different constructors
                    {
                        let eps = (case.p_milli as f64 / 1000.0).max(0.01);
                        let delta = 1.0 / (1.0 + case.b as f64);
                        let mut pq = CountMinSketch::<u64>::with_point_query_properties(eps, delta);
                        let mut ex = CountMinSketch::<u64>::with_params(pq.w(), pq.d());
                        let mut pq2 = CountMinSketch::<u64>::with_point_query_properties(eps, delta);
                        let mut ex2 = CountMinSketch::<u64>::with_params(pq.w(), pq.d());
                        let half = case.keys.len() / 2;
                        for &key in &case.keys[..half] {
                            pq.add(&key);
                            ex2.add(&key);
                        }
                        for &key in &case.keys[half..] {
                            ex.add(&key);
                            pq2.add(&key);
                        }
                        pq.merge(&ex);
                        ex2.merge(&pq2);
                        stats.probe("cross_constructor_merge");
                        for (&k, &t) in truth.iter() {
                            for (name, s) in [("with_point_query_properties <- with_params", &pq), ("with_params <- with_point_query_properties", &ex2)] {
                                let q = s.query_point(&k);
                                if q < t || q > case.keys.len() {
                                    viol.push(v("C02", if q < t { "cms/underestimate" } else { "cms/exceeds-total" }, 0, format!("merge {} ({}x{}): query_point({}) = {}, true weight {}", name, pq.w(), pq.d(), k, q, t)));
                                    return;
                                }
                            }
                        }
                    }
                    let total = case.keys.len();
                    for &q in &all {
                        let (a, b) = (x.query_point(&q), y.query_point(&q));
                        if a != b {
                            viol.push(v("C02", "cms/extend-differs-from-add", 0, format!("query_point({}) = {} after add, {} after extend", q, a, b)));
                            return;
                        }
                        let t = truth.get(&q).copied().unwrap_or(0);
                        if b < t || b > total {
                            viol.push(v("C02", if b < t { "cms/underestimate" } else { "cms/exceeds-total" }, 0, format!("default hasher, {}x{}: query_point({}) = {}, true {} of total {}", w, d, q, b, t, total)));
                            return;
                        }
                    }
                }
                2 => {
                    let b = 4 + case.a % 15;
                    {
                        use std::hash::BuildHasher;
                        let bh = BuildHasherDefault::<DefaultHasher>::default();
                        for w in case.keys.windows(2) {
                            let (h0, h1) = (bh.hash_one(w[0]), bh.hash_one(w[1]));
                            if w[0] != w[1] && h0 >> b == h1 >> b {
                                stats.fault("adjacent_rank_twins_under_siphash");
                            }
                        }
                    }
                    let mut x = HyperLogLog::<u64>::new(b);
                    let mut y = HyperLogLog::<u64>::new(b);
                    let mut z = HyperLogLog::<u64>::new(b);
                    for &key in &case.keys {
                        x.add(&key);
                    }
                    for ch in case.keys.chunks(case.chunk) {
                        y.extend(ch.iter().cloned()); // Extend<T>
                        stats.probe("via_extend");
                    }
                    let mut rev: Vec<u64> = case.keys.clone();
                    rev.reverse();
                    for ch in rev.chunks(case.chunk) {
                        z.extend(ch.iter()); // Extend<&T>, reversed order, then once more (repetition)
                    }
                    z.extend(case.keys.iter().take(case.chunk));
                    stats.fault("net_reorder");
                    stats.steps += 3 * case.keys.len() as u64;
                    if x.registers() != y.registers() || x.registers() != z.registers() || x.count() != y.count() || x != z {
                        viol.push(v("C17", "hll/extend-differs-from-add", 0, format!("b = {}: registers differ between add, extend by value and extend by reference (reversed, repeated)", b)));
                        return;
                    }
                }
                3 => {
                    // "every k >= 1": also far more places than there will ever be elements
                    let k = match case.p_milli {
                        1 => usize::MAX,
                        10 => 1usize << 62,
                        _ => case.b,
                    };
                    let mut x = CMSHeap::<u64>::new(k, CountMinSketch::with_params(case.a, 2));
                    let mut y = CMSHeap::<u64>::new(k, CountMinSketch::with_params(case.a, 2));
                    for &key in &case.keys {
                        x.add(key);
                    }
                    for ch in case.keys.chunks(case.chunk) {
                        y.extend(ch.iter().cloned());
                        stats.probe("via_extend");
                    }
                    stats.steps += case.keys.len() as u64;
                    let (mut a, mut b): (Vec<u64>, Vec<u64>) = (x.iter().collect(), y.iter().collect());
                    a.sort();
                    b.sort();
                    let distinct: BTreeSet<u64> = case.keys.iter().cloned().collect();
                    if a != b || x.is_empty() != y.is_empty() {
                        viol.push(v("C10", "cmsheap/extend-differs-from-add", 0, format!("iter() = {:?} after add, {:?} after extend", a, b)));
                        return;
                    }
                    if b.len() != k.min(distinct.len()) {
                        viol.push(v("C10", "cmsheap/wrong-number-of-elements", 0, format!("extend: iter() yields {} elements, expected min(k = {}, distinct = {})", b.len(), k, distinct.len())));
                        return;
                    }
                }
                4 => {
                    // cuckoo filters sized by the accuracy constructors, default hasher, SimRng
                    let expected = case.keys.len().max(1);
                    let p = case.p_milli as f64 / 1000.0;
                    let (rng, _) = crate::rng::SimRng::new(case.rng_seed, &[]);
                    let mut f = if case.b % 2 == 0 { CuckooFilter::<u64, _>::with_properties_4(p, expected, rng) } else { CuckooFilter::<u64, _>::with_properties_8(p, expected, rng) };
                    let mut ok: Vec<u64> = vec![];
                    for &key in &case.keys {
                        match f.insert(&key) {
                            Ok(b) => {
                                if !b {
                                    viol.push(v("C14", "cuckoo/insert/ok-false", 0, format!("with_properties filter: insert({}) returned Ok(false)", key)));
                                    return;
                                }
                                ok.push(key);
                            }
                            Err(_) => {
                                stats.fault("full_insert");
                            }
                        }
                        stats.steps += 1;
                    }
                    if f.len() != ok.len() {
                        viol.push(v("C14", "cuckoo/len-mismatch", 0, format!("with_properties filter: len() = {} after {} successful inserts", f.len(), ok.len())));
                        return;
                    }
                    for &key in &ok {
                        if !f.query(&key) {
                            viol.push(v("C01", "cuckoo/false-negative/with-properties", 0, format!("filter built by with_properties_{}({}, {}): key {} not reported", if case.b % 2 == 0 { 4 } else { 8 }, p, expected, key)));
                            return;
                        }
                    }
                    // delete everything that went in: multiset accounting on the production configuration
                    for &key in &ok {
                        if !f.delete(&key) {
                            viol.push(v("C14", "cuckoo/delete/return-mismatch", 0, format!("with_properties filter: delete({}) of an inserted key returned false", key)));
                            return;
                        }
                    }
                    if !f.is_empty() || f.len() != 0 {
                        viol.push(v("C14", "cuckoo/len-mismatch", 0, "with_properties filter: not empty after deleting every inserted key".into()));
                    }
                }
                5 => {
                    // HashSet through filters::compat: an exact Filter
                    type H = HashSet<u64>;
                    let mut a: H = HashSet::new();
                    let mut b: H = HashSet::new();
                    let half = case.keys.len() / 2;
                    let mut seen = BTreeSet::new();
                    for &key in &case.keys[..half] {
                        let r = <H as Filter<u64>>::insert(&mut a, &key).unwrap();
                        if r != seen.insert(key) {
                            viol.push(v("C01", "hashset/insert-return", 0, format!("insert({}) returned {}", key, r)));
                            return;
                        }
                    }
                    for &key in &case.keys[half..] {
                        <H as Filter<u64>>::insert(&mut b, &key).unwrap();
                    }
                    <H as Filter<u64>>::union(&mut a, &b).unwrap();
                    stats.steps += case.keys.len() as u64;
                    for &key in &case.keys {
                        if !<H as Filter<u64>>::query(&a, &key) {
                            viol.push(v("C01", "hashset/false-negative", 0, format!("key {} missing after union", key)));
                            return;
                        }
                    }
                    let distinct: BTreeSet<u64> = case.keys.iter().cloned().collect();
                    if <H as Filter<u64>>::len(&a) != distinct.len() || <H as Filter<u64>>::is_empty(&a) != distinct.is_empty() {
                        viol.push(v("C01", "hashset/len", 0, "len / is_empty of the union is wrong".into()));
                        return;
                    }
                    <H as Filter<u64>>::clear(&mut a);
                    if !<H as Filter<u64>>::is_empty(&a) {
                        viol.push(v("C19", "hashset/clear/not-empty", 0, "not empty after clear".into()));
                    }
                }
                7 => {
                    // unsized, owned and zero-sized element types on the default hasher; fingerprints are wide
                    // enough for distinct strings to be distinct classes
                    use std::hash::BuildHasher;
                    let names: Vec<String> = case.keys.iter().take(300).map(|k| format!("k{}", k % 5000)).collect();
                    let distinct: BTreeSet<&str> = names.iter().map(|s| s.as_str()).collect();
                    let absent: Vec<String> = case.probes.iter().map(|k| format!("absent{}", k)).collect();
                    stats.steps += names.len() as u64;
                    // Bloom<str>
                    let mut bl = BloomFilter::<str>::with_params(case.a * 64, case.b.min(5));
                    for n in &names {
                        bl.insert(n.as_str()).unwrap();
                    }
                    if let Some(n) = names.iter().find(|n| !bl.query(n.as_str())) {
                        viol.push(v("C01", "bloom/false-negative/str", 0, format!("BloomFilter<str>: {:?} not reported", n)));
                        return;
                    }
                    // Cuckoo<str>
                    let (rng, _) = crate::rng::SimRng::new(case.rng_seed, &[]);
                    let mut cf = CuckooFilter::<str, _>::with_params(rng, 4, 256, 56);
                    let mut copies: BTreeMap<&str, usize> = BTreeMap::new();
                    for n in &names {
                        match cf.insert(n.as_str()) {
                            Ok(true) => *copies.entry(n.as_str()).or_insert(0) += 1,
                            Ok(false) => {
                                viol.push(v("C14", "cuckoo/insert/ok-false", 0, format!("CuckooFilter<str>: insert({:?}) returned Ok(false)", n)));
                                return;
                            }
                            Err(_) => stats.fault("full_insert"),
                        }
                    }
                    let total: usize = copies.values().sum();
                    if cf.len() != total {
                        viol.push(v("C14", "cuckoo/len-mismatch", 0, format!("CuckooFilter<str>: len() = {}, {} successful inserts", cf.len(), total)));
                        return;
                    }
                    for (n, c) in &copies {
                        if !cf.query(n) {
                            viol.push(v("C01", "cuckoo/false-negative/str", 0, format!("CuckooFilter<str>: {:?} not reported", n)));
                            return;
                        }
                        for i in 0..*c {
                            if !cf.delete(n) {
                                viol.push(v("C14", "cuckoo/delete/return-mismatch", 0, format!("CuckooFilter<str>: copy {} of {} of {:?} cannot be deleted", i + 1, c, n)));
                                return;
                            }
                        }
                        if cf.query(n) {
                            viol.push(v("C14", "cuckoo/query-mismatch", 0, format!("CuckooFilter<str>: {:?} still reported after all its copies were deleted", n)));
                            return;
                        }
                    }
                    if !cf.is_empty() {
                        viol.push(v("C14", "cuckoo/len-mismatch", 0, "CuckooFilter<str>: not empty after deleting everything".into()));
                        return;
                    }
                    // Quotient<String>
                    let mut qf = QuotientFilter::<String>::with_params(10, 54);
                    let mut held: BTreeSet<&str> = BTreeSet::new();
                    for n in names.iter().take(900) {
                        match qf.insert(n) {
                            Ok(b) => {
                                if b != held.insert(n.as_str()) {
                                    viol.push(v("C13", "quotient/insert/return-mismatch", 0, format!("QuotientFilter<String>: insert({:?}) returned Ok({})", n, b)));
                                    return;
                                }
                            }
                            Err(_) => {
                                viol.push(v("C13", "quotient/insert/err-not-full", 0, "QuotientFilter<String>: insert failed far below capacity".into()));
                                return;
                            }
                        }
                    }
                    if qf.len() != held.len() || held.iter().any(|n| !qf.query(&n.to_string())) {
                        viol.push(v("C13", "quotient/len-mismatch", 0, "QuotientFilter<String>: len or membership wrong".into()));
                        return;
                    }
                    if let Some(a) = absent.iter().find(|a| qf.query(a)) {
                        viol.push(v("C13", "quotient/query-mismatch", 0, format!("QuotientFilter<String>: never inserted {:?} reported with a 64-bit fingerprint", a)));
                        return;
                    }
                    // CMS<str>
                    let mut cms = CountMinSketch::<str>::with_params(case.a.max(2), case.b);
                    let mut truth: BTreeMap<&str, usize> = BTreeMap::new();
                    for n in &names {
                        let r = cms.add(n.as_str());
                        *truth.entry(n.as_str()).or_insert(0) += 1;
                        if r != cms.query_point(n.as_str()) {
                            viol.push(v("C02", "cms/add-return", 0, format!("CountMinSketch<str>: add({:?}) returned {}, query_point says {}", n, r, cms.query_point(n.as_str()))));
                            return;
                        }
                    }
                    for (n, t) in &truth {
                        let q = cms.query_point(n);
                        if q < *t || q > names.len() {
                            viol.push(v("C02", if q < *t { "cms/underestimate" } else { "cms/exceeds-total" }, 0, format!("CountMinSketch<str>: query_point({:?}) = {}, true {}", n, q, t)));
                            return;
                        }
                    }
                    // HLL<str> against the register rule, and HLL<()> (one possible element)
                    let b = 4 + case.a % 15;
                    let bh = BuildHasherDefault::<DefaultHasher>::default();
                    let mut h = HyperLogLog::<str>::new(b);
                    let mut model = vec![0u8; 1 << b];
                    for n in &names {
                        h.add(n.as_str());
                        crate::s2h_hll::model_update(&mut model, b, bh.hash_one(n.as_str()));
                    }
                    if h.registers() != &model[..] {
                        viol.push(v("C17", "hll/register-rule", 0, format!("HyperLogLog<str>, b = {}: registers differ from the rule applied to hash_one of every string", b)));
                        return;
                    }
                    // Extend<&str> / Extend<&[u8]> with items that are slices of one buffer (same start
                    // address, different lengths; adjacent; nested): every slice is its own element
                    {
                        let buf: String = names.iter().take(12).map(|s| s.as_str()).collect::<Vec<_>>().join("");
                        let l = buf.len().min(40);
                        let mut slices: Vec<&str> = vec![];
                        for i in 1..=l {
                            slices.push(&buf[..i]); // prefixes: one start address
                        }
                        for i in 1..l {
                            slices.push(&buf[i..l]); // suffixes: one end
                        }
                        for i in 0..l / 2 {
                            slices.push(&buf[i..l - i]); // nested
                        }
                        if case.b % 2 == 1 {
                            slices.reverse();
                        }
                        let mut he = HyperLogLog::<str>::new(b);
                        let mut hb = HyperLogLog::<[u8]>::new(b);
                        let mut model_s = vec![0u8; 1 << b];
                        let mut model_b = vec![0u8; 1 << b];
                        for ch in slices.chunks(case.chunk.max(1)) {
                            he.extend(ch.iter().copied());
                            hb.extend(ch.iter().map(|s| s.as_bytes()));
                        }
                        for s in &slices {
                            crate::s2h_hll::model_update(&mut model_s, b, bh.hash_one(*s));
                            crate::s2h_hll::model_update(&mut model_b, b, bh.hash_one(s.as_bytes()));
                        }
                        stats.probe("via_extend_by_reference_unsized");
                        if he.registers() != &model_s[..] || hb.registers() != &model_b[..] {
                            viol.push(v("C17", "hll/extend-differs-from-add", 0, format!("HyperLogLog<{}>, b = {}: registers after extend(&T) over {} overlapping slices of one buffer differ from the rule applied to hash_one of every slice", if he.registers() != &model_s[..] { "str" } else { "[u8]" }, b, slices.len())));
                            return;
                        }
                    }
                    let mut hu = HyperLogLog::<()>::new(4);
                    hu.add(&());
                    hu.add(&());
                    let mut hu2 = HyperLogLog::<()>::new(4);
                    hu2.add(&());
                    if hu != hu2 || hu.count() != 1 {
                        viol.push(v("C17", "hll/registers-depend-on-order-or-repetition", 0, "HyperLogLog<()>: adding the unit value twice differs from adding it once".into()));
                        return;
                    }
                    let _ = distinct;
                }
                _ => {
                    // quotient filter on the default hasher: set semantics with 64-bit keys hashed by SipHash
                    let q = 3 + case.a % 8;
                    let mut f = QuotientFilter::<u64>::with_params(q, 64 - q);
                    let mut g = QuotientFilter::<u64, BuildHasherDefault<DefaultHasher>>::with_params_and_hash(q, 64 - q, BuildHasherDefault::default());
                    let cap = 1usize << q;
                    let mut held = BTreeSet::new();
                    for &key in &case.keys {
                        let r1 = f.insert(&key);
                        let r2 = g.insert(&key);
                        stats.steps += 1;
                        let expect_new = !held.contains(&key);
                        match (r1, r2) {
                            (Ok(a), Ok(b)) => {
                                if a != b || a != expect_new {
                                    viol.push(v("C13", "quotient/insert/return-mismatch", 0, format!("default hasher: insert({}) returned {} / {}, new = {}", key, a, b, expect_new)));
                                    return;
                                }
                                held.insert(key);
                            }
                            (Err(_), Err(_)) => {
                                stats.fault("full_insert");
                                if !(expect_new && held.len() == cap) {
                                    viol.push(v("C13", "quotient/insert/err-not-full", 0, format!("default hasher: insert({}) failed with {} of {} slots used", key, held.len(), cap)));
                                    return;
                                }
                            }
                            _ => {
                                viol.push(v("C13", "quotient/with_params-differs-from-with_params_and_hash", 0, format!("insert({}) succeeds on one construction path and fails on the other", key)));
                                return;
                            }
                        }
                    }
                    if f.len() != held.len() {
                        viol.push(v("C13", "quotient/len-mismatch", 0, format!("default hasher: len() = {}, {} distinct keys held", f.len(), held.len())));
                        return;
                    }
                    for &key in &held {
                        if !f.query(&key) {
                            viol.push(v("C01", "quotient/false-negative/default-hasher", 0, format!("key {} not reported", key)));
                            return;
                        }
                    }
                }
            }
        });
        if let Caught::LibPanic(loc, msg) = r {
            viol.push(Violation { property: prop, class: format!("entry/{}/panic/{}", case.which, panic_site(&loc)), step: 0, detail: format!("panic at {}: {}", loc, msg) });
        }
        Outcome { stats, violations: viol.into_iter().filter(|x| x.property == prop).collect() }
    }

    fn shrink(case: &EntryCase) -> Vec<EntryCase> {
        let mut out = vec![];
        for k in shrink_vec(&case.keys).into_iter().take(200) {
            let mut c = case.clone();
            c.keys = k;
            out.push(c);
        }
        for p in shrink_vec(&case.probes).into_iter().take(40) {
            let mut c = case.clone();
            c.probes = p;
            out.push(c);
        }
        if case.chunk > 1 {
            let mut c = case.clone();
            c.chunk = 1;
            out.push(c);
        }
        out
    }

    fn describe(case: &EntryCase) -> Value {
        json!({"which": case.which, "a": case.a, "b": case.b, "p": case.p_milli as f64 / 1000.0, "chunk": case.chunk, "n_keys": case.keys.len(), "first_keys": case.keys.iter().take(12).collect::<Vec<_>>()})
    }
}
