#!/bin/bash
# usage: tools/try_mutant_isolated.sh <patch-file> <Cnn> [<Cnn> ...]
# Like try_mutant.sh, but leaves /repo alone: a scratch worktree of /repo gets the patch and a
# scratch copy of the simulator is built against it (used while background runs read /repo).
set -u
PATCH="$(realpath "$1")"; shift
# one user of the shared scratch target directory at a time
mkdir -p /tmp/mt; exec 9>/tmp/mt/target.lock; flock 9
D=/tmp/mt/$(basename "$PATCH" .patch)-$$
mkdir -p "$D/verif"
git -C /repo worktree add -q --detach "$D/repo" HEAD || exit 2
trap 'git -C /repo worktree remove --force "$D/repo"; rm -rf "$D"' EXIT
( cd "$D/repo" && git apply "$PATCH" ) || { echo "patch does not apply"; exit 2; }
rsync -a --exclude target /verif/sim "$D/verif/"
cp /verif/check /verif/known_findings.json "$D/verif/"
sed -i "s#path = \"/repo\"#path = \"$D/repo\"#" "$D/verif/sim/Cargo.toml"
export CARGO_TARGET_DIR=/tmp/mt/target
for p in "$@"; do
    out=$(cd "$D/verif" && ./check "$p" quick 2>&1)
    code=$?
    echo "== $p exit=$code"
    echo "$out" | grep -E "VIOLATION|KNOWN-FINDING|HARNESS|class=|CALIB" | cut -c1-300 | head -12
    echo "$out" | tail -1 | cut -c1-200
done
