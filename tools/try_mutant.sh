#!/bin/bash
# usage: tools/try_mutant.sh <patch-file> <Cnn> [<Cnn> ...]
# Applies the patch to /repo, runs the quick checks of the given properties, undoes the patch.
# Evidence files written meanwhile are restored from git afterwards (they must describe the unchanged tree).
set -u
PATCH="$(realpath "$1")"; shift
cd /repo || exit 2
if ! git diff --quiet; then echo "/repo has uncommitted changes; refusing"; exit 2; fi
if ! git apply --check "$PATCH" 2>/dev/null; then echo "patch does not apply to /repo HEAD"; exit 2; fi
git apply "$PATCH"
trap 'git -C /repo checkout -- . ; git -C /verif checkout -- evidence 2>/dev/null' EXIT
cd /verif
for p in "$@"; do
    out=$(./check "$p" quick 2>&1)
    code=$?
    echo "== $p exit=$code"
    echo "$out" | grep -E "VIOLATION|KNOWN-FINDING|HARNESS|class=" | cut -c1-300 | head -12
    echo "$out" | tail -1 | cut -c1-200
done
