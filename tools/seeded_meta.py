#!/usr/bin/env python3
"""Assembles /verif/seeded/<id>/ from the sub-agents' scratch worktrees (/tmp/wt/<prop>/mutantN.patch, tests/demoN.rs),
the validation logs (/tmp/mt/validate/) and the check results (/tmp/mt/results/). Also writes seeded/README.md."""
import json, os, re, shutil, sys, glob

DESC = {
 ("C01",1): ("cuckoo-delete-removes-from-both-buckets", "CuckooFilter::delete uses non-short-circuit `|`: removes a copy from both candidate buckets, len decremented once", "the same fingerprint in both candidate buckets (an element inserted > bucketsize times), then deletes: insert 3x, delete 2x, query false"),
 ("C01",2): ("quotient-union-pending-quotients-lifo", "QuotientFilter::union pops pending run quotients with pop_back instead of pop_front", "operand with a cluster in which >= 2 occupied canonical slots are seen before the next run starts (run of 3 at q with q+1, q+2 occupied)"),
 ("C02",1): ("cms-add-return-zero-sentinel", "CountMinSketch::add_n uses result.is_zero() instead of i == 0 as the 'first row' test for its running minimum: returned value too large", "an element with a zero cell in an early row and a collision in the last row (partial collision); table itself stays correct"),
 ("C02",2): ("cms-merge-column-bound-d-instead-of-w", "CountMinSketch::merge rewritten as in-place nested loop with inner bound d instead of w", "non-square sketch (w > d loses columns >= d; d > w panics) and a merge with a non-empty sketch"),
 ("C04",1): ("tdigest-merge-fuses-ties-unbounded", "TDigest merge also fuses when next.mean() == current.mean(), ignoring the cluster size limit", "discrete data where one exact value carries more mass than a cluster may hold"),
 ("C04",2): ("tdigest-k2-misplaced-parenthesis", "K2::x computes ln(n)/delta instead of ln(n/delta): centroid count grows with ln(n)", "K2 only, n large relative to delta (delta=20: n=10^4 gives 21-24 centroids > 23)"),
 ("C06",1): ("quotient-union-pending-quotients-lifo", "same mechanism as C01-m2, written independently for C06", "operand cluster with >= 2 pending quotients"),
 ("C06",2): ("cuckoo-union-stops-at-first-free-slot", "CuckooFilter::union stops scanning a bucket of the operand at its first free slot ('buckets are filled front to back')", "the operand's history contains a delete of an element in an earlier slot of a bucket that still holds a later element (a hole); insert-only operands behave identically"),
 ("C09",1): ("lossy-width-rounded-instead-of-ceil", "LossyCounter::with_epsilon uses round() instead of ceil() for the window width", "with_epsilon with a non-reciprocal epsilon whose 1/eps has a fractional part < 0.5 (0.3, 0.07) and an element with frequency in (eps, 1/round(1/eps)] at a window end"),
 ("C09",2): ("lossy-window-index-in-floating-point", "LossyCounter::add computes b_current = ceil(n * epsilon) in f64 instead of the integer formula", "with_width >= 75 at specific window indices where n*(1/width) rounds just above an integer, or non-reciprocal with_epsilon; an element exactly one occurrence above the prune line at that boundary"),
 ("C12",1): ("cuckoo-union-skips-rollback-when-nothing-transferred", "CuckooFilter::union only rolls back if n_elements changed", "the union must fail on the very first transferred fingerprint (receiver's candidate buckets full, 500 kicks not undone)"),
 ("C12",2): ("quotient-union-restores-swapped-bitsets", "QuotientFilter::union's in-cluster failure path restores is_continuation and is_shifted from each other's backup", "the union fails at a fingerprint inside a cluster of the operand AND the receiver held a shifted run start before"),
 ("C05",1): ("reservoir-phase-boundary-le", "`self.i <= t` instead of `< t`: the gap-phase entry block never runs, item 4k+1 is taken with probability 1", "statistics over many RNG seeds on exactly position 4k+1, n >= 4k+2"),
 ("C05",2): ("reservoir-stale-skip-until-after-clear", "two cooperating sites: lazy `skip_until == 0` entry check plus clear() no longer resetting skip_until", "a first stream into the gap phase, clear(), then a second stream longer than 4k but shorter than the first: positions >= 4k never sampled"),
 ("C10",1): ("cmsheap-map-and-tree-disagree-while-filling", "CMSHeap::add stores the sketch estimate in obj2count but 1 in the tree while the heap has room", "a sketch collision during the fill phase (tiny sketch), k >= 2, and a second add of the inflated element: iter() yields duplicates"),
 ("C10",2): ("cmsheap-tracked-elements-skip-sketch", "CMSHeap::add does not update the sketch for elements already in the reservoir", "an element tracked for several occurrences, evicted, and returning: it stays out although strictly more frequent (collision-free sketch)"),
 ("C11",1): ("tdigest-merge-normalises-by-insert-count", "TDigest merge uses n_samples instead of the total weight as normaliser", "weighted inserts with average weight > 1: nothing fuses any more, centroids grow linearly with the stream"),
 ("C11",2): ("cuckoo-clear-block-count-confusion", "CuckooFilter::clear uses block_with_fill(len) instead of with_fill(len): 64 bits per slot after clear", "at least one clear() and a fingerprint narrower than 64 bits; memory measured after the clear"),
 ("C13",1): ("quotient-wrapped-slot-not-marked-shifted", "QuotientFilter::insert_internal sets is_shifted only if position > quotient (not !=)", "an insert whose target slot lies beyond the wrap point and a later insert/query for the quotient owning that slot (4 slots: insert 6, 7, 0 then query(7))"),
 ("C13",2): ("quotient-capacity-check-before-duplicate-check", "capacity check moved ahead of the duplicate check in insert_internal", "a completely full table and an insert/union of an already present class: Err instead of Ok(false)"),
 ("C14",1): ("cuckoo-relocation-not-counted", "n_elements += 1 removed in the kick-loop success branch", "an insert that succeeds by relocation (both candidate buckets full): len() one short, later delete underflows"),
 ("C14",2): ("cuckoo-delete-removes-from-both-buckets", "same mechanism as C01-m1, written independently for C14", "copies of one class in both candidate buckets, then delete"),
 ("C15",1): ("tdigest-right-tail-half-total-weight", "right tail of quantile interpolates over 0.5*s instead of 0.5*w_last", ">= 2 centroids, last centroid fused (weight > 1), q in the last half centroid"),
 ("C15",2): ("tdigest-cdf-skips-backlog-merge", "TDigest::cdf no longer merges the backlog before reading", "cdf as the first read after inserts that did not overflow the backlog, no other read in between"),
 ("C16",1): None, ("C16",2): None, ("C17",1): None, ("C17",2): None, ("C18",1): None, ("C18",2): None, ("C19",1): None, ("C19",2): None, ("C20",1): None, ("C20",2): None,
}
extra = os.path.join(os.path.dirname(os.path.abspath(__file__)), "seeded_desc_extra.json")
if os.path.exists(extra):
    for k, v in json.load(open(extra)).items():
        p, n = k.rsplit("-m", 1)
        DESC[(p, int(n))] = tuple(v)

rows = []
for (prop, n), d in sorted(DESC.items(), key=lambda kv: (re.sub(r"^r\d+-", "", kv[0][0]), kv[0][0], kv[0][1])):
    if not d: continue
    slug, what, needs = d
    src = f"/tmp/wt/{prop}"
    dst = f"/verif/seeded/{prop}-m{n}-{slug}"
    tag = prop
    prop = re.sub(r"^r\d+-", "", prop)
    have_src = os.path.exists(f"{src}/mutant{n}.patch")
    if have_src:
        os.makedirs(dst, exist_ok=True)
        shutil.copy(f"{src}/mutant{n}.patch", f"{dst}/patch.diff")
        shutil.copy(f"{src}/tests/demo{n}.rs", f"{dst}/demo.rs")
    if not os.path.exists(f"{dst}/patch.diff"): continue
    meta_path = f"{dst}/meta.json"
    meta = json.load(open(meta_path)) if os.path.exists(meta_path) else {}
    val = f"/tmp/mt/validate/{tag}-m{n}.txt"
    if os.path.exists(val):
        t = open(val).read()
        parts = re.split(r"^-- ", t, flags=re.M)
        v = {}
        for p in parts[1:]:
            head, _, body = p.partition("\n")
            v[head.strip()] = [l.strip() for l in body.strip().splitlines()][:4]
        meta["validated_in_scratch_worktree"] = v
    res = f"/tmp/mt/results/{tag}-m{n}.txt"
    if os.path.exists(res):
        t = open(res).read()
        det = {}
        cur = None
        for l in t.splitlines():
            m = re.match(r"== (C\d\d) exit=(\d+)", l)
            if m:
                cur = m.group(1); det[cur] = {"exit": int(m.group(2)), "classes": []}
            m = re.search(r"class=(\S+)", l)
            if m and cur: det[cur]["classes"].append(m.group(1))
        old = meta.get("checks_run", {})
        old.update(det)
        meta["checks_run"] = old
    meta.update({"breaks_property": prop, "round": int(tag[1]) if tag.startswith("r") else 1, "change": what, "needs_to_manifest": needs,
                 "source": "independent sub-agent given only the property text and a scratch worktree of /repo",
                 "how_checked": "tools/try_mutant_isolated.sh patch.diff <checks> (scratch worktree of /repo + scratch copy of the simulator built against it); tools/validate_mutant.sh patch.diff demo.rs"})
    caught = [c for c, r in meta.get("checks_run", {}).items() if r["exit"] == 1]
    meta["caught_by"] = caught
    json.dump(meta, open(meta_path, "w"), indent=1)
    rows.append((tag, n, slug, what, needs, caught, meta.get("checks_run", {}), prop))

with open("/verif/seeded/README.md", "w") as f:
    f.write("# Seeded changes and the checks that catch them\n\nGenerated by tools/seeded_meta.py from seeded/*/meta.json. Every change compiles, passes the 213 unit tests, and comes with an independent demonstration (demo.rs) that fails with the change and passes without it.\n\n| seeded change | breaks | caught by (quick tier, violation classes) | needs to manifest |\n|---|---|---|---|\n")
    for tag, n, slug, what, needs, caught, runs, prop in rows:
        c = "; ".join(f"{k}: {', '.join(sorted(set(runs[k]['classes']))[:3])}" for k in caught) or "**missed**"
        missed = [k for k, r in runs.items() if r["exit"] == 0]
        if missed: c += f" (not by {', '.join(missed)})"
        f.write(f"| {tag}-m{n} {slug}: {what} | {prop} | {c} | {needs} |\n")
print(len(rows), "seeded changes assembled")
