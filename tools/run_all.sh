#!/bin/bash
# runs every claimed check (quick by default) on the current trees and prints one line per check
cd /verif
tier=${1:-quick}
for p in $(python3 -c "import json; print(' '.join(c['property_id'] for c in json.load(open('MANIFEST.json'))['checks']))"); do
    s=$(date +%s); out=$(./check $p $tier 2>&1); code=$?; e=$(date +%s)
    echo "$p exit=$code $((e-s))s :: $(echo "$out" | tail -1 | cut -c1-160)"
    echo "$out" | grep -E "VIOLATION|KNOWN-FINDING|HARNESS" | cut -c1-300
done
