#!/usr/bin/env python3
"""Writes /verif/MANIFEST.json from the table below (single source of truth for the interface)."""
import json, os, sys
HERE = os.path.dirname(os.path.dirname(os.path.abspath(__file__)))

NA = {
 "C03": "Aggregate accuracy statistic (RMS / mean / tail of count()'s relative error over independent hash seeds per precision and cardinality): a population statistic of a static configuration with no runtime choice, fault, history or interleaving for a simulator to own; deciding it is Monte-Carlo estimation, not deterministic simulation. Its one fault-shaped clause (count() returns for arbitrary register contents) is exercised under C20.",
 "C07": "False-positive frequency over hasher seeds and probe keys plus the integer sizing arithmetic of with_properties*: pure functions of the arguments and a population statistic; nothing is scheduled, delayed, failed or interleaved, so simulation would only rename statistical testing.",
 "C08": "Fraction of (hash seed, element) pairs whose over-estimate exceeds epsilon*N: a population statistic over static hash configurations with nothing for a scheduler or fault injector to decide.",
}

# id -> (level, technique, text, note)
CLAIMED = {
 "C01": ("exploration", "seeded simulation of filter histories (eviction RNG, collision-forcing hashers, Full outcomes, unions) against a key-level liveness model; minimised replay files",
         "Seeded search over histories of insert/delete/union/clear on all four Filter implementations with the simulator owning every eviction draw and the hash placement; after every operation every live key must be reported. Sampling, not proof.",
         "Small scale: black-box key universe (<=96 keys per run), histories <=200 operations; large scale (S1L): exact key-level model with full-width fingerprints, tables up to 2^18 slots, sampled comparison plus a final full sweep; union with a mismatched operand is only judged when it returns Ok."),
 "C12": ("fault_enumeration", "fault enumeration over failure positions of insert/union (clone-and-try against an evolving base state, several RNG salts) with whole-state comparison",
         "For generated base states the failing call is enumerated: every key of the universe under several eviction streams (insert) and a fixed operand against a filter filling up one element at a time (union fails at first/middle/last transfer); on every Err the complete observable state (len, is_empty, query over the universe, remaining delete counts) must equal the state before.",
         "Observable state = the universe of the run (<=96 keys) at small scale; at large scale (S1L, up to 2^18 slots) failed inserts are compared on a sample and every held copy is drained at the end; the failure position inside a cuckoo union is only known up to the free capacity. A run that does not terminate is reported as a violation by the watchdog."),
 "C13": ("exploration", "seeded simulation with an Identity hasher placing quotient/remainder directly; refinement against a set of black-box derived fingerprint classes after every operation",
         "Refinement of QuotientFilter against a set model over seeded histories with simulator-chosen slot placement (wrap-around, multi-run clusters, full tables are probed and counted); return values of insert checked against the statement.",
         "Classes are derived per run from single-element filters; universes <=96 keys, q<=12 at small scale; S1L adds tables of 2^8..2^14 slots filled to capacity with an exact key-level model (full-width fingerprints)."),
 "C14": ("exploration", "seeded simulation of insert/delete histories with injected eviction outcomes (tape of extreme RNG words, salts) against a class multiset model, delete-counting on clones",
         "Refinement of CuckooFilter against a multiset of fingerprint classes under simulator-owned eviction randomness; len, query over the universe, delete results and remaining multiplicities checked.",
         "Classes derived per run black-box; tiny tables dominate (2-8 buckets) with 10% realistic sizes; S1L adds tables up to 2^17 buckets, buckets of 255..512 slots and 48..64-bit fingerprints with an exact key-level model."),

 "C05": ("exploration", "batches of sampler runs over SimRng seeds per (k, n) cell; inclusion counts of every stream position and of regions tested against k/n at z = 6 with the documented-approximation allowance beyond n = 4k+1",
         "The probability in the statement is over the injected RNG, which the simulator owns: per (k, n) cell 2*10^5 (k<=16) or 2*10^4 (k=64) sampler runs with distinct RNG streams; exact test while n <= 4k+1, calibrated allowance (1+ln(n/4k))/k beyond (a textbook implementation uses about half of it). Beyond the (k, n) grid: cells on samplers that were used and cleared before, cells with n = 2^27 / 2^28, cells fed through Extend in batches with lazily sized iterators.",
         "Statistical acceptance; binomial standard error is conservative because inclusions within a run are negatively correlated; SimRng's SplitMix stream is assumed to be a good uniform source."),
 "C18": ("exploration", "seeded simulation with a tape of extreme RNG words (0, u64::MAX, 1<<63, ...) at a random 0-30% of draw positions; structural invariants after every add",
         "Arbitrary RNG output is the fault: the invariants (len = min(n,k), items are distinct stream positions, prefix order until k, i(), is_empty, no panic) are checked after every add across and on the phase boundaries, with clear() restarts, items delivered through Extend with iterators whose size hints are missing or loose, and clone_from as state transfer onto a sampler of another k.",
         "k <= 64 mostly, occasionally 1000 and 10^5; n <= 6*10^4."),
 "C04": ("exploration", "seeded simulation of the compaction schedule (backlog knob 0..n+1, reads injected between inserts) over 14 arrival patterns; exact sorted multiset as reference; rank error of quantile/cdf against c*W+2/n and centroid count against delta+3",
         "The statement quantifies over insertion order and over which inserts are compacted together; the simulator owns both (arrival pattern, backlog size, read positions) and checks the exact-multiset oracle at check points and at the end.",
         "n <= 2*10^4 (quick) / 10^5 (thorough); interval reading of the empirical CDF with eps = 8 ulp * magnitude * (total weight / smallest weight); c = 1 only for iid smooth patterns; at exact ties (unit weights, small integer values) cdf at the data values is held to the literal 3 W + 2/n."),
 "C15": ("exploration", "seeded simulation of compaction schedules (weighted and unweighted inserts, zero weights, reads) with shape invariants of quantile/cdf checked on a 250-point grid at check points",
         "Invariant checking at read points of simulated histories: monotonicity, range, end points, repeatability, cdf(quantile(q)) consistency split into generic (tight) and lattice (loose) inputs, empty digest; the compaction schedule decides the centroid layout the invariants are evaluated on.",
         "Tolerances as granted by the statement (8 ulp * kappa); consistency check skipped when kappa makes it meaningless (counted by a probe)."),
 "C16": ("exploration", "seeded simulation of insert/insert_weighted histories with every compaction schedule; conservation of count/sum/mean/min/max/is_empty against running totals at every read",
         "Conservation invariant under every compaction schedule the backlog knob and read positions produce; weights across 12 orders of magnitude, zero weights, deltas from 1.1 (total fusion) to 1000.",
         "Relative 1e-9 accumulation tolerance scaled by sum |x| w; count / sum / mean are each read first in turn, so that each has to flush pending inserts itself."),
 "C09": ("exploration", "seeded streams aimed at the pruning tick (an element re-appears on the add right after it was pruned; counts equal to the window number), black-box oracles for no-miss / no-intruder / add return value / table bound at every prefix",
         "Refinement of the stated guarantees over generated streams; the only schedule-like choice is where occurrences fall relative to the pruning tick every width adds, which two of the seven stream shapes target and a probe counts.",
         "Threshold comparisons carry a 1e-9*n guard band on the lenient side; long streams are checked at tick-adjacent and every 17th prefix instead of all."),
 "C10": ("exploration", "seeded streams over sketches from 1x1 (everything collides) to collision-free, shadow CountMinSketch supplying the largest overestimate E at every prefix, under catch_unwind with debug assertions enabled",
         "Reference-model checking of iter() (cardinality, distinctness, membership, the k-others-within-E condition) and of panic freedom at every prefix; collisions are provoked by table shape because CMSHeap fixes the default hasher.",
         "CMSHeap offers no hasher seam; E is taken from a shadow sketch of identical parameters, which is bit-identical to the inner one."),
 "C20": ("fault_enumeration", "fault enumeration over the stored bytes: a catalogue of ~130 structural corruptions per base sketch (b, registers length, register values, field drop/dup/retype/reorder, replaced document) plus seeded truncations, bit flips and torn writes; accepted documents are exercised under catch_unwind",
         "The serialised document is the fault surface: for every precision and several register fills the catalogue is enumerated completely and byte-level faults are sampled; from_slice must fail or return a sketch with 4 <= b <= 18 and 2^b registers on which add/add_hashed/count/merge/clear do not panic; the untouched document must round-trip to an equal sketch that stays equal under a common continuation.",
         "JSON (serde_json) is the only format exercised; the hasher is the serialisable SimHasher."),
 "C02": ("exploration", "simulated replicas of CountMinSketch (counter types u8..usize, w != d, row-colliding hashers) exchanging snapshots over a reordering / duplicating / dropping network with restarts; per-node bounds true <= query_point <= total after every event",
         "Reference-model checking of add / add_n / merge / clear histories on 2-5 nodes; the simulator's own choices are the merge deliveries (which table is added into which, in what order, how often) and the row-collision pattern; a snapshot counts as often as it was delivered.",
         "Weights are bounded (generator and executor guard) so that no counter overflows: overflow panics are documented unwraps, not part of the statement."),
 "C06": ("exploration", "simulated network of 2-5 replicas per structure kind (reordering, duplication, loss, partitions with blocked deliveries, restarts, Full on union, HLL snapshots through JSON bytes) with a refinement check against a fresh sequentially-fed instance after every delivery, algebraic probes on clones and a fault-free convergence phase",
         "The multi-party property: after every successful delivery the receiver is observationally equal to a fresh instance of the same configuration fed the receiver's logical content (cuckoo: equal to the class multiset), the shipped snapshot is unchanged, a Full union leaves the receiver unchanged; commutativity / associativity / idempotence are probed on clones; after faults stop all nodes converge.",
         "Observational equality is over the run's key universe (<= 40 keys incl. never-ingested probes) plus len / count / registers / is_empty; S1L adds unions of large filters (one-cluster operands, >2^16 slots / buckets, operands with holes) against an exact key-level model."),
 "C17": ("exploration", "at-least-once stream transport simulation: the same multiset of hashes (boundary catalogue) is delivered to 2-4 HyperLogLog nodes in different orders and multiplicities through add_hashed and add (Identity / Sip / masked hashers); registers compared with the rule of the statement after every add",
         "Permutation and repetition of adds are what a reordering, duplicating transport produces; all nodes must agree and every touched register must equal the statement's rule (max over addressed hashes of the first-set-bit position), add must equal add_hashed(hash_one), reconstruction from registers must be equal; between deliveries, events that must not change a register (rejected merges with a sketch of another hasher or precision, merges with an empty sketch or a clone, work on a clone); Extend by value and by reference (str / [u8] slices of one buffer) against add.",
         "All 15 precisions, <= 600 items per run."),
 "C19": ("exploration", "restart / fork simulation for all nine structures: seeded prefix (with failed inserts), clear(), continuation applied in lock-step to a fresh instance whose injected RNG stream is aligned to the cleared instance's position; clones taken at a seeded instant, mutated in both directions",
         "clear() is a restart that keeps only the configuration and clone() a fork at an arbitrary instant; the instant and (cuckoo, reservoir) the alignment of the RNG stream are the simulator's choices. After clear() and after every continuation step both instances must give identical operation results and identical answers on the structure's full observer set; is_empty() is compared with the number of successful additions.",
         "Observer sets: filters query over <= 32 keys + len + is_empty; CMS query_point; HLL registers/count; T-Digest n_centroids, 33 quantiles, 33 cdf values, aggregates (bit-exact); reservoir contents; LossyCounter n and three sorted queries; CMSHeap sorted iter."),
 "C11": ("exploration", "allocator seam: a counting global allocator attributes live heap bytes to the structure while seeded workloads (including failed inserts and clear()) run; bound F*documented+512 B at every decade of stream length, no-growth test across decades, zero after drop",
         "Resource accounting through the allocator the simulator owns: live bytes are read after construction, at 10^2..10^5 (thorough 10^6) elements, after failed inserts, after clear() and after drop, over a grid of configurations (fingerprint / remainder widths 2..64); streams are i.i.d. or periodic (aligned with the LossyCounter window), element by element, in Extend chunks, or with a read after every n-th insert.",
         "Constant factors 1.5 (bit-packed tables) / 4 (Vec, HashMap, BTreeSet backed) plus 512 B; the no-growth test (a decade more data, at most twice the memory) is independent of them; LossyCounter is checked against its documented O(width * (H(n/width)+1)) entries only."),
}

PENDING = {}

def main():
    props = [json.loads(l) for l in open(os.path.join(HERE, "properties.jsonl"))]
    checks = []
    na = []
    for p in props:
        pid = p["id"]
        if pid in CLAIMED:
            level, tech, text, note = CLAIMED[pid]
            checks.append({
                "property_id": pid,
                "quick_cmd": f"./check {pid} quick",
                "thorough_cmd": f"./check {pid} thorough",
                "evidence_file": f"evidence/{pid}.json",
                "replay_cmd_template": "./check replay {path}",
                "engine": "pdsim",
                "level_claimed": {"category": level, "text": text, "design_ref": f"DESIGN.md section 4, {pid}"},
                "level_note": note,
                "technique": "deterministic simulation with fault injection: " + tech,
            })
        elif pid in NA:
            na.append({"property_id": pid, "reason": NA[pid]})
        else:
            na.append({"property_id": pid, "reason": PENDING.get(pid, "not claimed yet: the simulation scenario for this property (see DESIGN.md section 4) is not built at this commit")})
    m = {
        "version": 1,
        "setup_cmd": "./check setup",
        "hooks": {
            "guard": "none",
            "enable": "no hooks: every observation goes through the public API and every choice through seams the API already has (R: Rng, B: BuildHasher, Result outcomes, merge/union, serde); checks build /repo as a path dependency of /verif/sim",
            "baseline_off_cmd": "cd /repo && cargo nextest run --workspace --no-fail-fast --offline || cargo test --workspace --no-fail-fast --offline",
            "source_commits": [],
            "add_only": True,
        },
        "engines": [{
            "name": "pdsim",
            "path": "sim/",
            "serves_properties": sorted(CLAIMED.keys()),
            "kind_free_text": "seeded deterministic simulator (Rust): injected RNG with tape, injected BuildHasher, simulated network/stream transport/byte store, counting allocator; reference models; delta-debugging minimiser; replay files",
        }],
        "checks": checks,
        "not_applicable": na,
        "notes": "Fixes to genuine defects found by these checks are separate 'fix:' commits in /repo and are listed in known_findings.json.",
    }
    json.dump(m, open(os.path.join(HERE, "MANIFEST.json"), "w"), indent=1)
    print("claimed", len(checks), "not claimed", len(na))

main()
