#!/usr/bin/env python3
"""Systematic single-token mutation sweep over /repo/src (sensitivity measurement, complement to
the sub-agent written changes in seeded/).

  tools/mutation_sweep.py gen                 enumerate mutants -> /tmp/mu/mutants.jsonl
  tools/mutation_sweep.py stage1 [workers]    which mutants compile and pass the 213 unit tests
  tools/mutation_sweep.py stage2 [workers]    run the property checks of the touched module on the survivors
  tools/mutation_sweep.py report              summary -> /verif/mutation/

Never touches /repo: every worker owns a scratch worktree /tmp/mu/w<i>/repo, a copy of the
simulator built against it and its own target directories. Restartable: one result file per mutant.
"""
import hashlib, json, os, re, signal, subprocess, sys, time
from multiprocessing import Process, Queue

MU = os.environ.get("MU_DIR", "/tmp/mu")
# operator set: 1 = token level (first sweep), 2 = branch level (conditions forced, conjuncts dropped, relations inverted)
OPS = int(os.environ.get("MU_OPS", "1"))
SRC_FILES = {
    "src/countminsketch.rs": ["C02", "C06", "C10", "C19", "C11"],
    "src/hash_utils.rs": ["C01", "C02", "C06", "C10"],
    "src/helpers.rs": ["C01", "C11", "C19"],
    "src/reservoirsampling.rs": ["C18", "C19", "C05", "C11"],
    "src/tdigest.rs": ["C15", "C16", "C04", "C19", "C11"],
    "src/filters/bloomfilter.rs": ["C01", "C06", "C19", "C11"],
    "src/filters/compat.rs": ["C01"],
    "src/filters/cuckoofilter.rs": ["C14", "C12", "C01", "C06", "C19", "C11"],
    "src/filters/quotientfilter.rs": ["C13", "C12", "C01", "C06", "C19", "C11"],
    "src/hyperloglog/mod.rs": ["C17", "C20", "C06", "C19", "C11"],
    "src/hyperloglog/serde.rs": ["C20"],
    "src/topk/cmsheap.rs": ["C10", "C19", "C11"],
    "src/topk/lossycounter.rs": ["C09", "C19", "C11"],
}

BINOPS = [
    (" < ", [" <= "]), (" <= ", [" < "]), (" > ", [" >= "]), (" >= ", [" > "]),
    (" == ", [" != "]), (" != ", [" == "]),
    (" + ", [" - "]), (" - ", [" + "]), (" * ", [" / "]), (" / ", [" * "]), (" % ", [" / "]),
    (" += ", [" -= "]), (" -= ", [" += "]), (" << ", [" >> "]), (" >> ", [" << "]),
    (" & ", [" | "]), (" | ", [" & "]), (" ^ ", [" | "]), (" && ", [" || "]), (" || ", [" && "]),
]
WORDS = [
    (".max(", ".min("), (".min(", ".max("), ("wrapping_add", "wrapping_sub"), ("wrapping_sub", "wrapping_add"),
    ("saturating_add", "saturating_sub"), ("saturating_sub", "saturating_add"), ("saturating_mul", "wrapping_mul"),
    ("checked_add", "checked_sub"), (".ceil()", ".floor()"), (".floor()", ".ceil()"),
    ("pop_front", "pop_back"), ("pop_back", "pop_front"), ("push_back", "push_front"), ("push_front", "push_back"),
    (".first()", ".last()"), (".last()", ".first()"), ("is_some()", "is_none()"), ("is_none()", "is_some()"),
    (".rev()", ""), ("true", "false"), ("false", "true"), ("if !", "if "), ("while !", "while "),
    (" as usize", " as u16 as usize"), (" as u64", " as u32 as u64"), ("..=", ".."),
    ("is_zero()", "is_one()"), (".is_empty()", ".is_empty() == false"),
]
SKIP_LINE = re.compile(r"^\s*(//|#\[|#!\[|use |pub use |mod |pub mod |extern )")
SKIP_HAS = ("assert!", "assert_eq!", "assert_ne!", "debug_assert", "panic!", "unreachable!", "debug_struct", ".field(", "write!(", "writeln!(", ".finish()")
INT = re.compile(r"(?<![\w.])(\d+)(?!\w|\.\d)")
FLOAT = re.compile(r"(?<![\w.])(\d+\.\d+)(?!\w)")


def code_part(line):
    """index where a trailing // comment starts (naive: no string handling needed for this code base)"""
    i = line.find("//")
    return len(line) if i < 0 else i


INVERT = [(" < ", " > "), (" > ", " < "), (" <= ", " >= "), (" >= ", " <= "), (" + 1", ""), (" - 1", ""), (" + 1", " - 1"), (" - 1", " + 1"),
          ("i1", "i2"), ("i2", "i1"), ("self.", "other."), ("other.", "self."), (".0", ".1"), (".1", ".0"), ("first", "last"), ("last", "first"),
          ("min", "max"), ("max", "min"), ("quotient", "remainder"), ("left", "right"), ("right", "left"), ("Some(", "None::<()>.or(Some("), ("w", "d"), ("d", "w")]


def branch_cands(code):
    """(col, old, new) candidates of the branch-level operator set"""
    out = []
    m = re.match(r"^(\s*(?:\} else )?if )(.+?)( \{\s*)$", code)
    if m and not m.group(2).startswith("let "):
        cond = m.group(2)
        c0 = len(m.group(1))
        out.append((c0, cond, "true"))
        out.append((c0, cond, "false"))
        out.append((c0, cond, "!(" + cond + ")"))
        for op in (" && ", " || "):
            if op in cond and cond.count("(") == cond.count(")"):
                parts = cond.split(op)
                # only split at top level
                ok = all(p.count("(") == p.count(")") for p in parts)
                if ok and len(parts) >= 2:
                    for i in range(len(parts)):
                        out.append((c0, cond, op.join(parts[:i] + parts[i + 1:])))
    m = re.match(r"^(\s*while )(.+?)( \{\s*)$", code)
    if m and not m.group(2).startswith("let "):
        out.append((len(m.group(1)), m.group(2), "false"))
    for old, new in INVERT:
        if old in ("w", "d", "min", "max", "first", "last", "left", "right", "quotient", "i1", "i2"):
            it = re.finditer(r"(?<![A-Za-z0-9_])" + re.escape(old) + r"(?![A-Za-z0-9_])", code)
        elif old in (".0", ".1"):
            it = re.finditer(re.escape(old) + r"(?![0-9A-Za-z_.])", code)
        else:
            it = re.finditer(re.escape(old), code)
        for mm in it:
            out.append((mm.start(), old, new))
    return out


def stmt_cands(code):
    """third operator set: deleted returns, compound assignment -> assignment, shortened iterations, dropped method calls, swapped arguments"""
    out = []
    st = code.strip()
    ind = len(code) - len(code.lstrip())
    if re.match(r"^return\b.*;$", st):
        out.append((ind, st, "/* return deleted */"))
    if st in ("break;", "continue;"):
        out.append((ind, st, "/* deleted */"))
    for old, new in ((" += ", " = "), (" -= ", " = "), (" |= ", " = "), (" ^= ", " = ")):
        for m in re.finditer(re.escape(old), code):
            out.append((m.start(), old, new))
    for old in (".iter()", ".iter_mut()", ".into_iter()", ".enumerate()", ".cloned()"):
        for m in re.finditer(re.escape(old), code):
            out.append((m.end(), "", ".skip(1)"))
    # upper bounds of ranges
    for m in re.finditer(r"\.\.=?([A-Za-z_][A-Za-z0-9_.]*(?:\(\))?)", code):
        out.append((m.end(), "", " - 1"))
        out.append((m.end(), "", " + 1"))
    # dropped method calls with simple arguments
    for m in re.finditer(r"\.(min|max|saturating_add|saturating_sub|saturating_mul|wrapping_add|wrapping_sub|checked_mul)\(([^()]*)\)", code):
        out.append((m.start(), m.group(0), ""))
    for name in (".abs()", ".ceil()", ".floor()", ".rev()", ".sqrt()", ".ln()", ".exp()", ".unwrap_or(0)"):
        for m in re.finditer(re.escape(name), code):
            out.append((m.start(), name, ""))
    # swapped arguments of two-argument calls with simple arguments
    for m in re.finditer(r"\(([A-Za-z_&][A-Za-z0-9_.&]*(?: as [a-z0-9]+)?), ([A-Za-z_&][A-Za-z0-9_.&]*(?: as [a-z0-9]+)?)\)", code):
        if m.group(1) != m.group(2):
            out.append((m.start(), m.group(0), "(%s, %s)" % (m.group(2), m.group(1))))
    return out


KEYWORDS = set("as break const continue crate else enum extern false fn for if impl in let loop match mod move mut pub ref return self Self static struct super trait true type unsafe use where while dyn usize u64 u32 u16 u8 f64 i32 i64 bool str Some None Ok Err Vec Option Result".split())
IDENT = re.compile(r"(?<![A-Za-z0-9_.:])([a-z_][a-z0-9_]*)(?![A-Za-z0-9_(!:])")
FIELD = re.compile(r"(?<=\bself\.)([a-z_][a-z0-9_]*)(?![A-Za-z0-9_(])")


def ident_cands(code, lines, ln):
    """fourth operator set: a local identifier / a field of self replaced by another one that occurs within 8 lines"""
    out = []
    lo, hi = max(0, ln - 8), min(len(lines), ln + 9)
    ctx = "\n".join(l[:code_part(l)] for l in lines[lo:hi])
    names = sorted({m.group(1) for m in IDENT.finditer(ctx)} - KEYWORDS)
    fields = sorted({m.group(1) for m in FIELD.finditer(ctx)})
    if code.lstrip().startswith(("fn ", "pub fn ", "let ", "for ")):
        # do not rename bindings themselves (declaration side); uses on the same line are still mutated below for `let`
        pass
    for m in IDENT.finditer(code):
        if m.group(1) in KEYWORDS:
            continue
        # skip the binding position of let / for
        before = code[:m.start()].rstrip()
        if before.endswith(("let", "let mut", "for", "fn", "|", "mut")) or code[m.end():].lstrip().startswith(("=", ":")) and not code[m.end():].lstrip().startswith("=="):
            continue
        for n in names:
            if n != m.group(1):
                out.append((m.start(), m.group(1), n))
    for m in FIELD.finditer(code):
        for n in fields:
            if n != m.group(1):
                out.append((m.start(), m.group(1), n))
    return out


def gen():
    os.makedirs(MU, exist_ok=True)
    out = []
    for f in SRC_FILES:
        lines = open("/repo/" + f).read().split("\n")
        end = len(lines)
        for i, l in enumerate(lines):
            if l.strip() == "#[cfg(test)]":
                end = i
                break
        in_doc_attr = False
        for ln in range(end):
            l = lines[ln]
            if SKIP_LINE.match(l) or not l.strip():
                continue
            if any(s in l for s in SKIP_HAS):
                continue
            cp = code_part(l)
            code = l[:cp]
            cands = []
            if OPS == 2:
                cands = branch_cands(code)
            if OPS == 3:
                cands = stmt_cands(code)
            if OPS == 4:
                cands = ident_cands(code, lines, ln)
            for old, news in BINOPS if OPS == 1 else []:
                for m in re.finditer(re.escape(old), code):
                    for new in news:
                        cands.append((m.start(), old, new))
            for old, new in WORDS if OPS == 1 else []:
                for m in re.finditer(re.escape(old), code):
                    if old in ("true", "false"):
                        a, b = m.start(), m.end()
                        if (a > 0 and (code[a - 1].isalnum() or code[a - 1] == "_")) or (b < len(code) and (code[b].isalnum() or code[b] == "_")):
                            continue
                    cands.append((m.start(), old, new))
            for m in INT.finditer(code) if OPS == 1 else []:
                v = int(m.group(1))
                reps = {0: ["1"], 1: ["0", "2"], 2: ["1", "3"]}.get(v, [str(v + 1), str(v - 1)])
                for r in reps:
                    cands.append((m.start(), m.group(1), r))
            for m in FLOAT.finditer(code) if OPS == 1 else []:
                v = float(m.group(1))
                reps = ["1.0"] if v == 0.0 else [repr(v * 2.0), repr(v / 2.0)]
                for r in reps:
                    cands.append((m.start(), m.group(1), r))
            # statement deletion
            s = code.strip()
            if OPS == 1 and s.endswith(";") and not s.startswith(("let ", "return", "type ", "const ", "static ", "pub ", "fn ", "}")) and s.count("(") == s.count(")") and s.count("{") == s.count("}"):
                cands.append((len(l) - len(l.lstrip()), "<stmt>", ""))
            for col, old, new in cands:
                if old == "<stmt>":
                    newline = l[:col] + "/* deleted */" + l[cp:]
                else:
                    newline = l[:col] + new + l[col + len(old):]
                if newline == l:
                    continue
                out.append({"file": f, "line": ln + 1, "col": col, "old": old, "new": new, "newline": newline})
    # ids
    seen = {}
    for m in out:
        base = "%s:%d" % (os.path.basename(m["file"]).replace(".rs", "") if "hyperloglog" not in m["file"] else "hll_" + os.path.basename(m["file"]).replace(".rs", ""), m["line"])
        seen[base] = seen.get(base, 0) + 1
        m["id"] = "%s#%d" % (base, seen[base])
    with open(MU + "/mutants.jsonl", "w") as fh:
        for m in out:
            fh.write(json.dumps(m) + "\n")
    byf = {}
    for m in out:
        byf[m["file"]] = byf.get(m["file"], 0) + 1
    print(len(out), "mutants", byf)


def load():
    return [json.loads(l) for l in open(MU + "/mutants.jsonl")]


def rpath(stage, mid):
    return "%s/results/%s/%s.json" % (MU, stage, mid.replace("/", "_").replace(":", "_").replace("#", "_"))


def run(cmd, cwd, env, timeout):
    p = subprocess.Popen(cmd, cwd=cwd, env=env, stdout=subprocess.PIPE, stderr=subprocess.STDOUT, start_new_session=True, text=True, errors="replace")
    try:
        out, _ = p.communicate(timeout=timeout)
        return p.returncode, out
    except subprocess.TimeoutExpired:
        try:
            os.killpg(p.pid, signal.SIGKILL)
        except ProcessLookupError:
            pass
        out, _ = p.communicate()
        return -9, out


def setup_worker(i, with_sim):
    d = "%s/w%d" % (MU, i)
    os.makedirs(d, exist_ok=True)
    if not os.path.isdir(d + "/repo"):
        subprocess.check_call(["git", "-C", "/repo", "worktree", "add", "-q", "--detach", d + "/repo", "HEAD"])
    subprocess.check_call(["git", "-C", d + "/repo", "checkout", "-q", "--", "."])
    if with_sim:
        os.makedirs(d + "/verif", exist_ok=True)
        subprocess.check_call(["rsync", "-a", "--delete", "--exclude", "target", "/verif/sim", d + "/verif/"])
        subprocess.check_call(["cp", "/verif/check", "/verif/known_findings.json", d + "/verif/"])
        subprocess.check_call(["sed", "-i", 's#path = "/repo"#path = "%s/repo"#' % d, d + "/verif/sim/Cargo.toml"])
    return d


def apply(d, m):
    p = d + "/repo/" + m["file"]
    lines = open("/repo/" + m["file"]).read().split("\n")
    assert lines[m["line"] - 1] != m["newline"]
    lines[m["line"] - 1] = m["newline"]
    open(p, "w").write("\n".join(lines))


def restore(d, m):
    open(d + "/repo/" + m["file"], "w").write(open("/repo/" + m["file"]).read())


def w_stage1(i, q):
    d = setup_worker(i, False)
    env = dict(os.environ, CARGO_NET_OFFLINE="true", CARGO_TARGET_DIR=d + "/target")
    while True:
        m = q.get()
        if m is None:
            break
        t0 = time.time()
        apply(d, m)
        code, out = run(["cargo", "test", "--lib", "--offline", "-q"], d + "/repo", env, 240)
        restore(d, m)
        if code == -9:
            st = "timeout"
        elif "error: could not compile" in out or "error[" in out or "error: " in out and "test result" not in out:
            st = "compile-fail"
        elif code == 0 and "213 passed" in out:
            st = "survived"
        else:
            st = "test-fail"
        failed = re.findall(r"^test (\S+) \.\.\. FAILED", out, re.M)[:5]
        json.dump({"id": m["id"], "status": st, "secs": round(time.time() - t0, 1), "failed": failed}, open(rpath("stage1", m["id"]), "w"))


def classes_of(out):
    return sorted(set(re.findall(r"class=(\S+)", out)))[:6]


def w_stage2(i, q):
    d = setup_worker(i, True)
    env = dict(os.environ, CARGO_NET_OFFLINE="true", CARGO_TARGET_DIR=d + "/simtarget", VERIF_DIR=d + "/verif", PDSIM_RUN_TIMEOUT_S="60")
    binp = d + "/simtarget/release/pdsim"
    while True:
        m = q.get()
        if m is None:
            break
        t0 = time.time()
        apply(d, m)
        res = {"id": m["id"], "file": m["file"], "line": m["line"], "old": m["old"], "new": m["new"], "checks": []}
        code, out = run(["cargo", "build", "--release", "--offline", "--bin", "pdsim"], d + "/verif/sim", env, 900)
        if code != 0:
            res["status"] = "sim-build-failed"
            res["detail"] = out[-600:]
        else:
            caught = None
            for scale, workers in (("0.05", "4"), ("1.0", "8")):
                for prop in SRC_FILES[m["file"]]:
                    code, out = run([binp, prop, "--scale", scale, "--workers", workers], d + "/verif", env, 3600)
                    last = out.strip().split("\n")[-1][:200] if out.strip() else ""
                    res["checks"].append({"prop": prop, "scale": scale, "exit": code, "classes": classes_of(out), "last": last})
                    if code == 1 and "VIOLATION property=" in out:
                        caught = prop
                        break
                    if code not in (0, 1):
                        res.setdefault("harness_errors", []).append({"prop": prop, "scale": scale, "exit": code, "tail": out[-800:]})
                if caught:
                    break
            res["status"] = "caught" if caught else "uncaught"
            res["caught_by"] = caught
        restore(d, m)
        res["secs"] = round(time.time() - t0, 1)
        json.dump(res, open(rpath("stage2", m["id"]), "w"), indent=1)


def drive(stage, target, items, nworkers):
    os.makedirs("%s/results/%s" % (MU, stage), exist_ok=True)
    todo = [m for m in items if not os.path.exists(rpath(stage, m["id"]))]
    print(stage, "todo", len(todo), "of", len(items), flush=True)
    q = Queue()
    for m in todo:
        q.put(m)
    for _ in range(nworkers):
        q.put(None)
    ps = [Process(target=target, args=(i, q)) for i in range(nworkers)]
    for p in ps:
        p.start()
    for p in ps:
        p.join()
    print(stage, "done", flush=True)


def sample(items, pct):
    return [m for m in items if int(hashlib.sha256(m["id"].encode()).hexdigest(), 16) % 100 < pct]


def main():
    cmd = sys.argv[1]
    if cmd == "gen":
        gen()
    elif cmd == "stage1":
        n = int(sys.argv[2]) if len(sys.argv) > 2 else 8
        drive("stage1", w_stage1, load(), n)
    elif cmd == "stage2":
        n = int(sys.argv[2]) if len(sys.argv) > 2 else 4
        pct = int(sys.argv[3]) if len(sys.argv) > 3 else 100
        surv = []
        for m in load():
            p = rpath("stage1", m["id"])
            if os.path.exists(p) and json.load(open(p))["status"] == "survived":
                surv.append(m)
        drive("stage2", w_stage2, sample(surv, pct), n)
    elif cmd == "patch":
        # writes /tmp/mu/patches/<id>.patch (git apply format) for one mutant id
        import difflib
        os.makedirs(MU + "/patches", exist_ok=True)
        for m in load():
            if m["id"] in sys.argv[2:]:
                a = open("/repo/" + m["file"]).read().split("\n")
                b = list(a)
                b[m["line"] - 1] = m["newline"]
                d = difflib.unified_diff(a, b, "a/" + m["file"], "b/" + m["file"], lineterm="", n=3)
                out = "%s/patches/%s.patch" % (MU, m["id"].replace(":", "_").replace("#", "_"))
                open(out, "w").write("\n".join(d) + "\n")
                print(out)
    elif cmd == "report":
        ms = load()
        s1 = {}
        for m in ms:
            p = rpath("stage1", m["id"])
            if os.path.exists(p):
                s1[m["id"]] = json.load(open(p))["status"]
        cnt = {}
        for v in s1.values():
            cnt[v] = cnt.get(v, 0) + 1
        print("stage1", cnt)
        s2 = {}
        for m in ms:
            p = rpath("stage2", m["id"])
            if os.path.exists(p):
                s2[m["id"]] = json.load(open(p))
        c2 = {}
        for r in s2.values():
            c2[r["status"]] = c2.get(r["status"], 0) + 1
        print("stage2", c2)
        for r in s2.values():
            if r["status"] != "caught":
                print(r["status"], r["id"], r["file"], r["line"], repr(r["old"]), "->", repr(r["new"]))
            if r.get("harness_errors"):
                print("HARNESS", r["id"], [(h["prop"], h["exit"]) for h in r["harness_errors"]])


if __name__ == "__main__":
    main()
