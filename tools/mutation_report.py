#!/usr/bin/env python3
"""Folds the results of tools/mutation_sweep.py (/tmp/mu/results) into /verif/mutation/: summary.json,
survivors.jsonl (every mutant that passes the 213 unit tests, with the check that catches it or the
triage category) and README.md."""
import json, glob, os, re, collections

CATS = {
 "A": "another deterministic hash / index / fingerprint function (same function on the write and the read path): only collision statistics change, which are C07 / C08 (not applicable)",
 "B": "sizing arithmetic of the accuracy constructors or the cardinality / length estimators: accuracy statements C03 / C07 / C08 (not applicable); no claimed property fixes these numbers",
 "C": "unreachable, dead or equal at the boundary (the mutated expression cannot evaluate differently on any reachable state)",
 "D": "a constant or tie-break the properties leave open, or an effect inside the tolerance the statement grants (O(1/k) gap-sampling bias, cluster-size constants within the W bound, a block of over-allocation within the C11 factor; plain or Bernoulli reservoir sampling where the gap approximation was: still uniform)",
 "E": "needs more than 2^32 slots / an astronomically long stream",
 "F": "capacity or speed only: inserts fail earlier with the state restored, only one of the two candidate buckets is tried first, runs are scanned completely or kept in the mirrored order, contents of free slots",
 "G": "text or arguments of a message, serializer length hint, duplicate JSON fields accepted with the last value (C20 allows acceptance when the resulting sketch satisfies the invariants)",
 "H": "`Filter for HashSet`::clear (not one of the nine structures of C19; C01 only forbids false negatives)",
 "GAP": "a real gap of the checks, closed because of this sweep (see DESIGN section 9)",
}
RULES = [
 (r"^hash_utils:", "A"), (r"^cuckoofilter:(384|391|401)#", "A"),
 (r"^countminsketch:(204|205)#", "B"), (r"^bloomfilter:(219|221|304)#", "B"), (r"^cuckoofilter:(334|337)#", "B"), (r"^hll_mod:", "B"),
 (r"^tdigest:(219|287|297|304|444|494|499)#", "C"), (r"^reservoirsampling:(87|155)#", "C"), (r"^quotientfilter:(431|622)#", "C"),
 (r"^cuckoofilter:(458|546)#", "C"), (r"^helpers:(14|38)#", "C"), (r"^cmsheap:36#", "C"), (r"^lossycounter:268#6", "C"),
 (r"^reservoirsampling:(108#2|128#)", "D"), (r"^tdigest:(199|276|361|366|404|420)#", "D"), (r"^cmsheap:198#", "D"), (r"^cuckoofilter:13#", "D"), (r"^helpers:(31|39)#", "D"),
 (r"^cuckoofilter:(409|411|421|431|432|464|466|482)#", "E"), (r"^quotientfilter:(307|423|475|480|497|502|572|594)#", "E"), (r"^reservoirsampling:108#1", "E"),
 (r"^cuckoofilter:(459|467|469)#", "F"), (r"^quotientfilter:(433|534)#", "F"),
 (r"^hll_serde:", "G"), (r"^compat:", "H"),
 (r"^tdigest:(908|919)#", "GAP"), (r"^lossycounter:268#5", "GAP"),
]

RULES2 = [
 (r"^(helpers:38|tdigest:366#1|reservoirsampling:(113|121|128)#)", "D"),
 (r"^(countminsketch:(275|280)#|hll_serde:)", "G"),
 (r"^(tdigest:(296|466|494)#|cuckoofilter:(546|552)#|quotientfilter:(385|508|568|584|604)#|cmsheap:(36|47)#)", "C"),
 (r"^(cuckoofilter:332#|hll_mod:)", "B"),
 (r"^(cuckoofilter:(446|450|456|470|513|553)#|quotientfilter:431#)", "F"),
]


RULES3 = [
 (r"^(reservoirsampling:144#|hash_utils:119#|tdigest:467#|hll_mod:(198|344)#|quotientfilter:568#|lossycounter:268#)", "C"),
 (r"^(tdigest:(420|421|439|461)#|cuckoofilter:458#)", "D"),
 (r"^(cuckoofilter:459#|quotientfilter:433#)", "F"),
 (r"^hll_mod:246#", "B"), (r"^hll_serde:", "G"),
]


RULES5 = [
 (r"^(countminsketch:(275|280)#|quotientfilter:318#|hll_serde:)", "G"), (r"^hash_utils:", "A"), (r"^hll_mod:316#", "B"),
 (r"^(helpers:(37|38|39)#|reservoirsampling:108#|tdigest:421#)", "D"),
 (r"^(reservoirsampling:128#|tdigest:(494|497)#|cuckoofilter:(469|470)#|quotientfilter:(427|428|431|468|572|585)#|cmsheap:224#|lossycounter:)", "C"),
 (r"^cuckoofilter:(450|456|513)#", "F"),
]
RULES4 = [
 (r"^(cmsheap:224#|lossycounter:|quotientfilter:(427|428|508|572)#|reservoirsampling:(129|155)#|tdigest:497#|helpers:37#)", "C"),
 (r"^cuckoofilter:(446|553)#", "F"), (r"^hash_utils:", "A"), (r"^hll_mod:313#", "B"), (r"^hll_serde:", "G"), (r"^reservoirsampling:113#", "D"),
]


def cat(mid, sweep=1):
    for rx, c in {1: RULES, 2: RULES2, 3: RULES3, 4: RULES4, 5: RULES5}[sweep]:
        if re.match(rx, mid):
            return c
    return None

s1 = collections.Counter()
for d in ("/tmp/mu", "/tmp/mu2", "/tmp/mu3", "/tmp/mu4", "/tmp/mu5"):
    for f in glob.glob(d + "/results/stage1/*.json"):
        s1[json.load(open(f))["status"]] += 1
rows = []
for f in sorted(glob.glob("/tmp/mu/results/stage2/*.json")) + sorted(glob.glob("/tmp/mu2/results/stage2/*.json")) + sorted(glob.glob("/tmp/mu3/results/stage2/*.json")) + sorted(glob.glob("/tmp/mu4/results/stage2/*.json")) + sorted(glob.glob("/tmp/mu5/results/stage2/*.json")):
    sweep = 5 if f.startswith("/tmp/mu5") else 4 if f.startswith("/tmp/mu4") else 3 if f.startswith("/tmp/mu3") else 2 if f.startswith("/tmp/mu2") else 1
    r = json.load(open(f))
    if sweep > 1:
        r["id"] = "bcdd"[sweep - 2] + ":" + r["id"]
    src = open("/repo/" + r["file"]).read().split("\n")[r["line"] - 1].strip()
    classes = sorted({c for ch in r["checks"] for c in ch["classes"]})
    row = {"id": r["id"], "file": r["file"], "line": r["line"], "old": r["old"], "new": r["new"], "source_line": src,
           "caught_by": r.get("caught_by"), "classes": classes[:4]}
    if r["status"] != "caught":
        c = "G" if r.get("note") else cat(r["id"][2:], sweep) if sweep > 1 else cat(r["id"])
        assert c, r["id"]
        row["triage"] = c
    rows.append(row)
caught = [r for r in rows if r["caught_by"]]
unc = [r for r in rows if not r["caught_by"]]
bycat = collections.Counter(r["triage"] for r in unc)
by_prop = collections.Counter(r["caught_by"] for r in caught)
os.makedirs("/verif/mutation", exist_ok=True)
with open("/verif/mutation/survivors.jsonl", "w") as fh:
    for r in rows:
        fh.write(json.dumps(r) + "\n")
summary = {"mutants": sum(s1.values()), "stage1": dict(s1), "survivors_of_unit_tests": len(rows), "caught_by_quick_checks": len(caught),
           "caught_by_property": dict(sorted(by_prop.items())), "not_caught": len(unc), "not_caught_by_category": dict(sorted(bycat.items()))}
json.dump(summary, open("/verif/mutation/summary.json", "w"), indent=1)
with open("/verif/mutation/README.md", "w") as fh:
    fh.write("# Mutation sweeps\n\n")
    fh.write("Generated by `tools/mutation_report.py` from the results of `tools/mutation_sweep.py` (operators: relational, arithmetic, "
             "logical and shift operators swapped, integer / float literals +-1 / x2 / /2, `min`/`max`, `wrapping`/`saturating`, `pop_front`/`pop_back` ..., "
             "`true`/`false`, dropped `!` / `.rev()`, narrowing casts `as u16 as usize` / `as u32 as u64`, `..=` -> `..`, deletion of single-line statements; "
             "test modules, assertions, Debug impls and the HLL bias tables excluded; a second sweep, ids prefixed `b:`, works on branches: `if` / `while` conditions forced to true / false / negated, "
             "conjuncts dropped, relations inverted, `+ 1` / `- 1` dropped or flipped, `self.`/`other.`, `i1`/`i2`, `w`/`d`, `.0`/`.1`, `first`/`last`, `min`/`max` exchanged; a third, ids prefixed `c:`, deletes `return` / `break` / `continue` statements, turns compound assignments into assignments, shortens iterations (`.skip(1)`, range bounds +-1), drops `min` / `max` / `saturating_*` / `abs` / `floor` ... calls and swaps the arguments of two-argument calls; a fourth, ids prefixed `d:`, replaces a local identifier or a field of `self` by another one that occurs within eight lines ("
             "of a first 35 % sample the 144 survivors whose change lies inside a string literal were not run and are listed under G; for the remaining 65 % such mutants were not generated). The sweeps complement the hand-written changes in `seeded/`: "
             "they are systematic where those are imaginative.\n\n")
    fh.write("| stage | count |\n|---|---|\n")
    fh.write("| mutants generated | %d |\n| do not compile | %d |\n| fail the 213 unit tests | %d |\n| unit tests do not terminate | %d |\n| **pass the unit tests** | **%d** |\n"
             % (sum(s1.values()), s1["compile-fail"], s1["test-fail"], s1["timeout"], len(rows)))
    fh.write("| of those: caught by the quick tier of a check of the touched module | %d |\n| not caught | %d |\n\n" % (len(caught), len(unc)))
    fh.write("Caught, by the first check that reported (checks were tried in a fixed order per module, at 5 % of the quick budget first): "
             + ", ".join("%s %d" % kv for kv in sorted(by_prop.items())) + ".\n\n")
    fh.write("Every mutant that was not caught was read by hand:\n\n| category | count | meaning |\n|---|---|---|\n")
    for c, n in sorted(bycat.items()):
        fh.write("| %s | %d | %s |\n" % (c, n, CATS[c]))
    fh.write("\nThe three `GAP` mutants are now caught (`tdigest:908#1`, `tdigest:919#1`: `sum()` / `mean()` no longer flush the backlog - the oracle read `count()` first, "
             "which flushed for them; `lossycounter:268#5`: the frequency bound of `query` truncated to 16 bits - no threshold put the bound above 2^16 on a stream with elements of medium frequency).\n\n")
    fh.write("## Mutants that pass the unit tests and are not caught\n\n| mutant | change | line | category |\n|---|---|---|---|\n")
    for r in unc:
        fh.write("| %s | `%s` -> `%s` | `%s` | %s |\n" % (r["id"], r["old"].strip() or r["old"], r["new"].strip() or "(deleted)", r["source_line"].replace("|", "\\|")[:90], r["triage"]))
print(json.dumps(summary, indent=1))
