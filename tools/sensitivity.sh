#!/bin/bash
# usage: tools/sensitivity.sh [seeded-dir-prefix ...]
# Applies every seeded change (in an isolated scratch worktree of /repo) and runs the quick check of the
# property it breaks; a change that the check does not catch is listed as MISSED. Results go to
# /tmp/mt/results/<id>.txt; `python3 tools/seeded_meta.py` folds them into seeded/*/meta.json and README.md.
export PDSIM_RUN_TIMEOUT_S=${PDSIM_RUN_TIMEOUT_S:-30}
mkdir -p /tmp/mt/results
missed=0
for d in /verif/seeded/*/; do
    name=$(basename "$d")
    [ -f "$d/meta.json" ] || continue
    id=$(echo "$name" | sed -E 's/^((r[0-9]-)?C[0-9]+-m[0-9]+).*/\1/')
    if [ $# -gt 0 ]; then match=0; for p in "$@"; do case "$name" in $p*) match=1;; esac; done; [ $match = 1 ] || continue; fi
    prop=$(python3 -c "import json,sys; print(json.load(open('$d/meta.json'))['breaks_property'])")
    /verif/tools/try_mutant_isolated.sh "$d/patch.diff" "$prop" > /tmp/mt/results/$id.txt 2>&1
    if grep -q "^== $prop exit=1" /tmp/mt/results/$id.txt; then
        echo "caught  $name by $prop: $(grep -m1 -o 'class=[^ ]*' /tmp/mt/results/$id.txt)"
    else
        echo "MISSED  $name ($(grep '^== ' /tmp/mt/results/$id.txt | tr '\n' ' '))"; missed=$((missed+1))
    fi
done
echo "missed: $missed"
