#!/bin/bash
# usage: tools/validate_mutant.sh <patch-file> <demo-test.rs>
# In a scratch worktree of /repo: (1) unit tests pass with the patch, (2) the demo fails with it, (3) the demo passes without it.
set -u
PATCH="$(realpath "$1")"; DEMO="$(realpath "$2")"
WT=/tmp/wt/validate-$$
git -C /repo worktree add -q --detach "$WT" HEAD || exit 2
trap 'git -C /repo worktree remove --force "$WT"' EXIT
cd "$WT" || exit 2
mkdir -p tests; cp "$DEMO" tests/demo_x.rs
export CARGO_TARGET_DIR=/tmp/wt/validate-target
echo "-- demo WITHOUT patch (must pass)"
cargo test --offline --test demo_x 2>&1 | grep -E "^test result|error(\[|:)|FAILED|panicked" | head -5
git apply "$PATCH" || { echo "PATCH DOES NOT APPLY"; exit 1; }
echo "-- unit tests WITH patch (must pass)"
cargo nextest run --offline --lib 2>&1 | grep -E "Summary|FAIL " | head -5
echo "-- demo WITH patch (must fail)"
cargo test --offline --test demo_x 2>&1 | grep -E "^test result|error(\[|:)|FAILED|panicked" | head -5
